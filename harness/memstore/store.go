package memstore

import (
	"bytes"
	"context"
	"crypto/sha256"
	"database/sql"
	"encoding/base64"
	"encoding/json"
	"errors"
	"fmt"
	"math/big"
	"sort"
	"strings"
	"sync/atomic"

	"github.com/jackc/pgx/v5/pgconn"
	"github.com/uptrace/bun"

	"github.com/formancehq/go-libs/v5/pkg/storage/bun/paginate"
	"github.com/formancehq/go-libs/v5/pkg/storage/migrations"
	"github.com/formancehq/go-libs/v5/pkg/storage/postgres"
	"github.com/formancehq/go-libs/v5/pkg/types/metadata"
	"github.com/formancehq/go-libs/v5/pkg/types/time"

	ledger "github.com/formancehq/ledger/internal"
	ledgercontroller "github.com/formancehq/ledger/internal/controller/ledger"
	"github.com/formancehq/ledger/internal/storage/common"
	ledgerstore "github.com/formancehq/ledger/internal/storage/ledger"
	"github.com/formancehq/ledger/pkg/features"
)

// Store implements controller/ledger.Store over a Cluster.
type Store struct {
	c     *Cluster
	l     ledger.Ledger
	sess  *Session  // nil on a root store (every statement autocommits on a pooled connection)
	bunTx *bun.Tx   // real bun transaction (top-level or savepoint) on pgshim
	conn  *bun.Conn // dedicated connection (LockLedger on a root store)
	// dones: one flag per enclosing transaction handle (outermost first); a handle whose own or
	// enclosing transaction was committed / rolled back answers sql.ErrTxDone, as database/sql does
	dones []*int32
}

func (s *Store) txDone() bool {
	for _, d := range s.dones {
		if atomic.LoadInt32(d) != 0 {
			return true
		}
	}
	return false
}

func (s *Store) markDone() {
	if n := len(s.dones); n > 0 {
		atomic.StoreInt32(s.dones[n-1], 1)
	}
}

var _ ledgercontroller.Store = (*Store)(nil)

func (s *Store) Ledger() ledger.Ledger { return s.l }

func (s *Store) data() *LedgerData { return s.c.data[s.l.Name] }

// enter is the store-call boundary: scheduler yield point + fault hook.
func (s *Store) enter(ctx context.Context, site string) error {
	if s.c.Sched != nil {
		s.c.Sched.Yield(ctx, site)
	}
	s.c.mu.Lock()
	s.c.stats.calls++
	s.c.mu.Unlock()
	s.c.emit(ctx, s.sess, "call", site, s.l.Name, "")
	if s.txDone() {
		return sql.ErrTxDone
	}
	if s.c.Hook != nil {
		if err := s.c.Hook(ctx, site); err != nil {
			// a failed statement aborts the enclosing SQL transaction
			if s.sess != nil {
				s.c.mu.Lock()
				if s.sess.txn != nil {
					s.sess.txn.aborted = true
				}
				s.c.mu.Unlock()
			}
			return err
		}
	}
	return nil
}

// run executes one "statement". On a root store it runs in its own
// autocommitted transaction; inside a transaction it honours and sets the
// aborted state the way Postgres does.
func (s *Store) run(ctx context.Context, site string, fn func(sess *Session, t *Txn) error) error {
	c := s.c
	sess := s.sess
	auto := false
	c.mu.Lock()
	if sess == nil {
		sess = c.newSession(ctx)
	}
	if sess.txn == nil {
		c.beginLocked(sess)
		auto = true
	} else if sess.txn.aborted {
		c.mu.Unlock()
		return errAborted
	}
	t := sess.txn
	t.ledgers[s.l.Name] = struct{}{}
	undoLen, pubLen := len(t.undo), len(t.publish)
	c.mu.Unlock()

	err := fn(sess, t)

	c.mu.Lock()
	defer c.mu.Unlock()
	var pge *pgconn.PgError
	isStmtErr := err != nil && (errors.As(err, &pge) || errors.Is(err, context.Canceled) || errors.Is(err, context.DeadlineExceeded))
	if auto {
		if err != nil {
			c.rollbackLocked(sess)
		} else {
			c.commitLocked(ctx, sess)
		}
		return err
	}
	if isStmtErr {
		// the failed statement's own effects are undone, the transaction is aborted
		t.rollbackToLocked(undoLen, pubLen)
		t.aborted = true
	}
	return err
}

// ---------------------------------------------------------------------------
// transactions

func (s *Store) BeginTX(ctx context.Context, options *sql.TxOptions) (ledgercontroller.Store, *bun.Tx, error) {
	if err := s.enter(ctx, "BeginTX"); err != nil {
		return nil, nil, err
	}
	if options != nil && options.Isolation != sql.LevelDefault && options.Isolation != sql.LevelReadCommitted {
		// memstore models READ COMMITTED only (what the ledger runs at); a request for another
		// level is recorded so that checks can report it instead of silently mis-modelling it
		s.c.mu.Lock()
		if s.c.isolationAsked == nil {
			s.c.isolationAsked = map[string]int{}
		}
		s.c.isolationAsked[options.Isolation.String()]++
		s.c.mu.Unlock()
	}
	cp := *s
	cp.dones = append(append([]*int32(nil), s.dones...), new(int32))
	switch {
	case s.bunTx != nil:
		tx, err := s.bunTx.BeginTx(ctx, options) // SAVEPOINT through pgshim
		if err != nil {
			return nil, nil, postgres.ResolveError(err)
		}
		cp.bunTx = &tx
	case s.conn != nil:
		tx, err := s.conn.BeginTx(ctx, options)
		if err != nil {
			return nil, nil, postgres.ResolveError(err)
		}
		cp.bunTx = &tx
	default:
		s.c.mu.Lock()
		sess := s.c.newSession(ctx)
		s.c.mu.Unlock()
		tx, err := s.c.db.BeginTx(context.WithValue(ctx, ctxSession, sess), options)
		if err != nil {
			return nil, nil, postgres.ResolveError(err)
		}
		cp.sess = sess
		cp.bunTx = &tx
	}
	return &cp, cp.bunTx, nil
}

func (s *Store) Commit(ctx context.Context) error {
	// no fault hook here: a failing commit is the COMMIT / RELEASE SAVEPOINT statement
	// failing (Cluster.CommitFault, site "sql:RELEASE SAVEPOINT"), which ends the transaction
	if s.c.Sched != nil {
		s.c.Sched.Yield(ctx, "Commit")
	}
	s.c.mu.Lock()
	s.c.stats.calls++
	s.c.mu.Unlock()
	s.c.emit(ctx, s.sess, "call", "Commit", s.l.Name, "")
	if s.bunTx == nil {
		return errors.New("cannot commit transaction: not in a transaction")
	}
	defer s.markDone()
	return s.bunTx.Commit()
}

func (s *Store) Rollback(ctx context.Context) error {
	if s.c.Sched != nil {
		s.c.Sched.Yield(ctx, "Rollback")
	}
	s.c.mu.Lock()
	s.c.stats.calls++
	s.c.mu.Unlock()
	s.c.emit(ctx, s.sess, "call", "Rollback", s.l.Name, "")
	if s.bunTx == nil {
		return errors.New("cannot rollback transaction: not in a transaction")
	}
	var injected error
	if s.c.Hook != nil {
		// a ROLLBACK that "fails" (connection lost) still ends the transaction server-side
		injected = s.c.Hook(ctx, "Rollback")
	}
	err := s.bunTx.Rollback()
	s.markDone()
	if injected != nil {
		return injected
	}
	return err
}

func (s *Store) LockLedger(ctx context.Context) (ledgercontroller.Store, bun.IDB, func() error, error) {
	if err := s.enter(ctx, "LockLedger"); err != nil {
		return nil, nil, nil, err
	}
	key := fmt.Sprintf("ledger:%d", s.l.ID)
	if s.bunTx != nil {
		if _, err := s.bunTx.ExecContext(ctx, `SELECT pg_advisory_xact_lock(hashtext(?))`, key); err != nil {
			return nil, nil, nil, err
		}
		return s, *s.bunTx, func() error { return nil }, nil
	}
	if s.conn != nil {
		return nil, nil, nil, errors.New("memstore: LockLedger on a connection-bound store")
	}
	conn, err := s.c.db.Conn(ctx)
	if err != nil {
		return nil, nil, nil, err
	}
	s.c.mu.Lock()
	sess := s.c.newSession(ctx)
	s.c.mu.Unlock()
	if _, err := conn.ExecContext(context.WithValue(ctx, ctxSession, sess), `SELECT pg_advisory_lock(hashtext(?))`, key); err != nil {
		_ = conn.Close()
		return nil, nil, nil, err
	}
	cp := *s
	cp.sess = sess
	cp.conn = &conn
	return &cp, conn, func() error {
		if _, err := conn.ExecContext(ctx, `SELECT pg_advisory_unlock(hashtext(?))`, key); err != nil {
			return err
		}
		return conn.Close()
	}, nil
}

func (s *Store) IsUpToDate(context.Context) (bool, error) { return true, nil }
func (s *Store) GetMigrationsInfo(context.Context) ([]migrations.Info, error) {
	return []migrations.Info{{Version: "0", Name: "memstore", State: "DONE"}}, nil
}

// ---------------------------------------------------------------------------
// balances / volumes

func volLockKey(l string, k volKey) string { return "vol|" + l + "|" + k.Account + "|" + k.Asset }

func (s *Store) GetBalances(ctx context.Context, q ledgerstore.BalanceQuery) (ledger.Balances, error) {
	if err := s.enter(ctx, "GetBalances"); err != nil {
		return nil, err
	}
	var keys []volKey
	for account, assets := range q {
		for _, asset := range assets {
			keys = append(keys, volKey{account, asset})
		}
	}
	sort.Slice(keys, func(i, j int) bool {
		if keys[i].Account != keys[j].Account {
			return keys[i].Account < keys[j].Account
		}
		return keys[i].Asset < keys[j].Asset
	})
	ret := ledger.Balances{}
	err := s.run(ctx, "GetBalances", func(sess *Session, t *Txn) error {
		d := s.data()
		for _, k := range keys {
			// insert (0,0) if absent — waits on an uncommitted insert of the same key — then FOR UPDATE
			if err := s.c.lock(ctx, sess, volLockKey(s.l.Name, k), "GetBalances", true); err != nil {
				return err
			}
			s.c.mu.Lock()
			row := d.volumes[k]
			if row == nil {
				row = &vrow[ledger.Volumes]{}
				d.volumes[k] = row
			}
			v := row.view(t)
			if v == nil {
				zero := ledger.NewEmptyVolumes()
				setPending(t, row, &zero)
				v = &zero
			}
			if ret[k.Account] == nil {
				ret[k.Account] = map[string]*big.Int{}
			}
			ret[k.Account][k.Asset] = new(big.Int).Sub(v.Input, v.Output)
			s.c.mu.Unlock()
		}
		return nil
	})
	if err != nil {
		return nil, postgres.ResolveError(err)
	}
	for account, assets := range q {
		if _, ok := ret[account]; !ok {
			ret[account] = map[string]*big.Int{}
		}
		for _, asset := range assets {
			if _, ok := ret[account][asset]; !ok {
				ret[account][asset] = big.NewInt(0)
			}
		}
	}
	return ret, nil
}

// CommitTransaction mirrors storage/ledger/transactions.go: UpdateVolumes upsert,
// InsertTransaction, moves / effective volumes by feature.
func (s *Store) CommitTransaction(ctx context.Context, tx *ledger.Transaction) error {
	if err := s.enter(ctx, "CommitTransaction"); err != nil {
		return err
	}
	var mapped error
	err := s.run(ctx, "CommitTransaction", func(sess *Session, t *Txn) error {
		d := s.data()
		// -- UpdateVolumes: the repository's own delta computation
		updates := tx.VolumeUpdates()
		pcv := ledger.PostCommitVolumes{}
		for _, u := range updates {
			k := volKey{u.Account, u.Asset}
			if err := s.c.lock(ctx, sess, volLockKey(s.l.Name, k), "CommitTransaction", true); err != nil {
				return err
			}
			s.c.mu.Lock()
			row := d.volumes[k]
			if row == nil {
				row = &vrow[ledger.Volumes]{}
				d.volumes[k] = row
			}
			cur := row.view(t)
			nv := ledger.NewEmptyVolumes()
			if cur != nil {
				nv = cur.Copy()
			}
			nv.Input.Add(nv.Input, u.Input)
			nv.Output.Add(nv.Output, u.Output)
			setPending(t, row, &nv)
			if pcv[u.Account] == nil {
				pcv[u.Account] = ledger.VolumesByAssets{}
			}
			pcv[u.Account][u.Asset] = nv.Copy()
			s.c.mu.Unlock()
		}
		tx.PostCommitVolumes = cpPCV(pcv)

		// -- InsertTransaction
		s.c.mu.Lock()
		var id uint64
		if tx.ID == nil {
			d.seqTx++ // nextval: never rolled back
			id = d.seqTx
		} else {
			id = *tx.ID
		}
		s.c.mu.Unlock()
		if err := s.c.lock(ctx, sess, fmt.Sprintf("txid|%s|%d", s.l.Name, id), "CommitTransaction", true); err != nil {
			return err
		}
		s.c.mu.Lock()
		if r := d.txs[id]; r != nil && r.view(t) != nil {
			s.c.mu.Unlock()
			mapped = ledgerstore.NewErrConcurrentTransaction(id)
			return pgErr("23505", "duplicate key value violates unique constraint \"transactions_ledger\"", "transactions_ledger")
		}
		s.c.mu.Unlock()
		if tx.Reference != "" {
			if err := s.c.lock(ctx, sess, "ref|"+s.l.Name+"|"+tx.Reference, "CommitTransaction", true); err != nil {
				return err
			}
			s.c.mu.Lock()
			for _, r := range d.txs {
				if v := r.view(t); v != nil && v.Reference == tx.Reference {
					s.c.mu.Unlock()
					mapped = ledgerstore.NewErrTransactionReferenceConflict(tx.Reference)
					return pgErr("23505", "duplicate key value violates unique constraint \"transactions_reference\"", "transactions_reference")
				}
			}
			s.c.mu.Unlock()
		}
		s.c.mu.Lock()
		defer s.c.mu.Unlock()
		tx.ID = &id
		if tx.Timestamp.IsZero() {
			tx.Timestamp = time.New(t.date)
		} else {
			tx.Timestamp = trunc(tx.Timestamp)
		}
		if tx.InsertedAt.IsZero() {
			tx.InsertedAt = time.New(t.date)
		} else {
			tx.InsertedAt = trunc(tx.InsertedAt)
		}
		if tx.UpdatedAt.IsZero() {
			tx.UpdatedAt = tx.InsertedAt
		} else {
			tx.UpdatedAt = trunc(tx.UpdatedAt)
		}
		if tx.Metadata == nil {
			tx.Metadata = metadata.Metadata{}
		}
		row := d.txs[id]
		if row == nil {
			row = &vrow[ledger.Transaction]{}
			d.txs[id] = row
		}
		stored := cpTx(tx)
		stored.PostCommitEffectiveVolumes = nil
		setPending(t, row, stored)
		d.seqN++
		d.txSeq[id] = d.seqN

		if s.l.HasFeature(features.FeatureMovesHistory, "ON") &&
			s.l.HasFeature(features.FeatureMovesHistoryPostCommitEffectiveVolumes, "SYNC") {
			tx.PostCommitEffectiveVolumes = s.effectiveVolumesLocked(t, d, stored)
		}
		return nil
	})
	if err != nil {
		if mapped != nil {
			return fmt.Errorf("failed to insert transaction: %w", mapped)
		}
		return postgres.ResolveError(err)
	}
	return nil
}

// effectiveVolumesLocked folds all visible postings ordered by (timestamp, insertion) up to and including tx.
func (s *Store) effectiveVolumesLocked(t *Txn, d *LedgerData, tx *ledger.Transaction) ledger.PostCommitVolumes {
	type ent struct {
		tx  *ledger.Transaction
		seq int64
	}
	var all []ent
	for id, r := range d.txs {
		if v := r.view(t); v != nil {
			all = append(all, ent{v, d.txSeq[id]})
		}
	}
	sort.Slice(all, func(i, j int) bool {
		if !all[i].tx.Timestamp.Equal(all[j].tx.Timestamp) {
			return all[i].tx.Timestamp.Before(all[j].tx.Timestamp)
		}
		return all[i].seq < all[j].seq
	})
	run := map[volKey]*ledger.Volumes{}
	get := func(k volKey) *ledger.Volumes {
		if run[k] == nil {
			v := ledger.NewEmptyVolumes()
			run[k] = &v
		}
		return run[k]
	}
	for _, e := range all {
		for _, p := range e.tx.Postings {
			get(volKey{p.Source, p.Asset}).Output.Add(get(volKey{p.Source, p.Asset}).Output, p.Amount)
			get(volKey{p.Destination, p.Asset}).Input.Add(get(volKey{p.Destination, p.Asset}).Input, p.Amount)
		}
		if *e.tx.ID == *tx.ID {
			break
		}
	}
	ret := ledger.PostCommitVolumes{}
	for _, p := range tx.Postings {
		for _, acc := range []string{p.Source, p.Destination} {
			if ret[acc] == nil {
				ret[acc] = ledger.VolumesByAssets{}
			}
			ret[acc][p.Asset] = get(volKey{acc, p.Asset}).Copy()
		}
	}
	return ret
}

// ---------------------------------------------------------------------------
// transaction updates (updateTxWithRetrieve)

func (s *Store) updateTx(ctx context.Context, site string, id uint64, apply func(t *Txn, cur *ledger.Transaction) (modified bool)) (*ledger.Transaction, bool, error) {
	if err := s.enter(ctx, site); err != nil {
		return nil, false, err
	}
	var (
		out      *ledger.Transaction
		modified bool
	)
	err := s.run(ctx, site, func(sess *Session, t *Txn) error {
		d := s.data()
		s.c.mu.Lock()
		row := d.txs[id]
		exists := row != nil && (row.committed != nil || (row.pendingBy == t && row.pending != nil))
		s.c.mu.Unlock()
		if !exists {
			// UPDATE matches nothing, the UNION ALL branch finds nothing: sql.ErrNoRows
			// (an uncommitted insert by another transaction is invisible and does not block)
			return sql.ErrNoRows
		}
		// UPDATE takes the row lock, then re-evaluates its WHERE on the latest committed version
		if err := s.c.lock(ctx, sess, fmt.Sprintf("txrow|%s|%d", s.l.Name, id), site, true); err != nil {
			return err
		}
		s.c.mu.Lock()
		defer s.c.mu.Unlock()
		cur := row.view(t)
		if cur == nil {
			return sql.ErrNoRows
		}
		nv := cpTx(cur)
		if apply(t, nv) {
			setPending(t, row, nv)
			modified = true
			out = cpTx(nv)
		} else {
			out = cpTx(cur)
		}
		return nil
	})
	if err != nil {
		return nil, false, postgres.ResolveError(err)
	}
	return out, modified, nil
}

func (s *Store) RevertTransaction(ctx context.Context, id uint64, at time.Time) (*ledger.Transaction, bool, error) {
	return s.updateTx(ctx, "RevertTransaction", id, func(t *Txn, cur *ledger.Transaction) bool {
		if cur.RevertedAt != nil {
			return false
		}
		when := trunc(at)
		if at.IsZero() {
			when = time.New(t.date)
		}
		cur.RevertedAt = &when
		cur.UpdatedAt = when
		return true
	})
}

func (s *Store) UpdateTransactionMetadata(ctx context.Context, id uint64, m metadata.Metadata, at time.Time) (*ledger.Transaction, bool, error) {
	return s.updateTx(ctx, "UpdateTransactionMetadata", id, func(t *Txn, cur *ledger.Transaction) bool {
		contained := true
		for k, v := range m {
			if cv, ok := cur.Metadata[k]; !ok || cv != v {
				contained = false
				break
			}
		}
		if contained { // not (metadata @> m) is false
			return false
		}
		if cur.Metadata == nil {
			cur.Metadata = metadata.Metadata{}
		}
		for k, v := range m {
			cur.Metadata[k] = v
		}
		if at.IsZero() {
			cur.UpdatedAt = time.New(t.date)
		} else {
			cur.UpdatedAt = trunc(at)
		}
		return true
	})
}

func (s *Store) DeleteTransactionMetadata(ctx context.Context, id uint64, key string, at time.Time) (*ledger.Transaction, bool, error) {
	return s.updateTx(ctx, "DeleteTransactionMetadata", id, func(t *Txn, cur *ledger.Transaction) bool {
		if _, ok := cur.Metadata[key]; !ok {
			return false
		}
		delete(cur.Metadata, key)
		if at.IsZero() {
			cur.UpdatedAt = time.New(t.date)
		} else {
			cur.UpdatedAt = trunc(at)
		}
		return true
	})
}

// ---------------------------------------------------------------------------
// accounts

func accLockKey(l, addr string) string { return "acc|" + l + "|" + addr }

func metaContains(a, b metadata.Metadata) bool { // a @> b
	for k, v := range b {
		if av, ok := a[k]; !ok || av != v {
			return false
		}
	}
	return true
}

func mergeMeta(base, over metadata.Metadata) metadata.Metadata { // base || over
	r := metadata.Metadata{}
	for k, v := range base {
		r[k] = v
	}
	for k, v := range over {
		r[k] = v
	}
	return r
}

func (s *Store) UpsertAccounts(ctx context.Context, accounts ...ledger.AccountWithDefaultMetadata) error {
	if err := s.enter(ctx, "UpsertAccounts"); err != nil {
		return err
	}
	err := s.run(ctx, "UpsertAccounts", func(sess *Session, t *Txn) error {
		d := s.data()
		for _, a := range accounts {
			if a.Account == nil {
				continue
			}
			md := a.Metadata
			if md == nil {
				md = metadata.Metadata{}
			}
			dm := a.DefaultMetadata
			if dm == nil {
				dm = metadata.Metadata{}
			}
			if err := s.c.lock(ctx, sess, accLockKey(s.l.Name, a.Address), "UpsertAccounts", true); err != nil {
				return err
			}
			s.c.mu.Lock()
			row := d.accounts[a.Address]
			if row == nil {
				row = &vrow[ledger.Account]{}
				d.accounts[a.Address] = row
			}
			cur := row.view(t)
			txDate := time.New(t.date)
			if cur != nil {
				// update-if-present:  WHERE d.first_usage < a.first_usage OR NOT a.metadata @> d.metadata
				// (a NULL d.first_usage makes the comparison NULL, i.e. not true)
				lower := !a.FirstUsage.IsZero() && trunc(a.FirstUsage).Before(cur.FirstUsage)
				if lower || !metaContains(cur.Metadata, md) {
					nv := cpAccount(cur)
					nv.Metadata = mergeMeta(cur.Metadata, md)
					if lower { // LEAST(d.first_usage, a.first_usage) ignores NULL
						nv.FirstUsage = trunc(a.FirstUsage)
					}
					if a.UpdatedAt.IsZero() {
						nv.UpdatedAt = txDate
					} else {
						nv.UpdatedAt = trunc(a.UpdatedAt)
					}
					setPending(t, row, nv)
					a.Account.Metadata = cpMeta(nv.Metadata)
					a.Account.FirstUsage = nv.FirstUsage
					a.Account.InsertionDate = nv.InsertionDate
					a.Account.UpdatedAt = nv.UpdatedAt
				}
			} else {
				nv := &ledger.Account{Address: a.Address, Metadata: mergeMeta(dm, md)}
				nv.FirstUsage, nv.UpdatedAt, nv.InsertionDate = txDate, txDate, txDate
				if !a.FirstUsage.IsZero() {
					nv.FirstUsage = trunc(a.FirstUsage)
				}
				if !a.UpdatedAt.IsZero() {
					nv.UpdatedAt = trunc(a.UpdatedAt)
				}
				if !a.InsertionDate.IsZero() {
					nv.InsertionDate = trunc(a.InsertionDate)
				}
				setPending(t, row, nv)
				a.Account.Metadata = cpMeta(nv.Metadata)
				a.Account.FirstUsage = nv.FirstUsage
				a.Account.InsertionDate = nv.InsertionDate
				a.Account.UpdatedAt = nv.UpdatedAt
			}
			s.c.mu.Unlock()
		}
		return nil
	})
	if err != nil {
		return fmt.Errorf("upserting accounts: %w", postgres.ResolveError(err))
	}
	return nil
}

func (s *Store) UpdateAccountsMetadata(ctx context.Context, m map[string]metadata.Metadata, at time.Time) error {
	if err := s.enter(ctx, "UpdateAccountsMetadata"); err != nil {
		return err
	}
	addrs := make([]string, 0, len(m))
	for a := range m {
		addrs = append(addrs, a)
	}
	sort.Strings(addrs)
	err := s.run(ctx, "UpdateAccountsMetadata", func(sess *Session, t *Txn) error {
		d := s.data()
		for _, addr := range addrs {
			md := m[addr]
			if err := s.c.lock(ctx, sess, accLockKey(s.l.Name, addr), "UpdateAccountsMetadata", true); err != nil {
				return err
			}
			s.c.mu.Lock()
			row := d.accounts[addr]
			if row == nil {
				row = &vrow[ledger.Account]{}
				d.accounts[addr] = row
			}
			when := trunc(at)
			if at.IsZero() { // nullzero columns fall back to their transaction_date() default
				when = time.New(t.date)
			}
			cur := row.view(t)
			if cur == nil {
				nmd := cpMeta(md)
				if nmd == nil {
					nmd = metadata.Metadata{}
				}
				setPending(t, row, &ledger.Account{Address: addr, Metadata: nmd, FirstUsage: when, InsertionDate: when, UpdatedAt: when})
			} else if !metaContains(cur.Metadata, md) {
				nv := cpAccount(cur)
				nv.Metadata = mergeMeta(cur.Metadata, md)
				nv.UpdatedAt = when
				if when.Before(cur.FirstUsage) {
					nv.FirstUsage = when
				}
				setPending(t, row, nv)
			}
			s.c.mu.Unlock()
		}
		return nil
	})
	return postgres.ResolveError(err)
}

func (s *Store) DeleteAccountMetadata(ctx context.Context, address, key string) error {
	if err := s.enter(ctx, "DeleteAccountMetadata"); err != nil {
		return err
	}
	err := s.run(ctx, "DeleteAccountMetadata", func(sess *Session, t *Txn) error {
		d := s.data()
		s.c.mu.Lock()
		row := d.accounts[address]
		visible := row != nil && row.view(t) != nil
		s.c.mu.Unlock()
		if !visible {
			return nil // UPDATE matches no row
		}
		if err := s.c.lock(ctx, sess, accLockKey(s.l.Name, address), "DeleteAccountMetadata", true); err != nil {
			return err
		}
		s.c.mu.Lock()
		defer s.c.mu.Unlock()
		cur := row.view(t)
		if cur == nil {
			return nil
		}
		nv := cpAccount(cur)
		delete(nv.Metadata, key)
		setPending(t, row, nv)
		return nil
	})
	return postgres.ResolveError(err)
}

// ---------------------------------------------------------------------------
// schemas

func (s *Store) InsertSchema(ctx context.Context, schema *ledger.Schema) error {
	if err := s.enter(ctx, "InsertSchema"); err != nil {
		return err
	}
	err := s.run(ctx, "InsertSchema", func(sess *Session, t *Txn) error {
		d := s.data()
		if err := s.c.lock(ctx, sess, "schema|"+s.l.Name+"|"+schema.Version, "InsertSchema", true); err != nil {
			return err
		}
		s.c.mu.Lock()
		defer s.c.mu.Unlock()
		row := d.schemas[schema.Version]
		if row == nil {
			row = &vrow[ledger.Schema]{}
			d.schemas[schema.Version] = row
		}
		if row.view(t) != nil {
			return pgErr("23505", "duplicate key value violates unique constraint \"schemas_pkey\"", "schemas_pkey")
		}
		if schema.CreatedAt.IsZero() {
			schema.CreatedAt = time.New(t.date) // default now() = transaction start
		} else {
			schema.CreatedAt = trunc(schema.CreatedAt)
		}
		// jsonb storage: keep the JSON encoding, decode on read
		b, err := json.Marshal(schema)
		if err != nil {
			return err
		}
		var stored ledger.Schema
		if err := json.Unmarshal(b, &stored); err != nil {
			return fmt.Errorf("memstore: schema does not survive its own JSON encoding: %w", err)
		}
		stored.CreatedAt = schema.CreatedAt
		setPending(t, row, &stored)
		return nil
	})
	return postgres.ResolveError(err)
}

func cpSchema(sc *ledger.Schema) *ledger.Schema {
	b, _ := json.Marshal(sc)
	var r ledger.Schema
	_ = json.Unmarshal(b, &r)
	r.CreatedAt = sc.CreatedAt
	return &r
}

func (s *Store) FindSchema(ctx context.Context, version string) (*ledger.Schema, error) {
	if err := s.enter(ctx, "FindSchema"); err != nil {
		return nil, err
	}
	var out *ledger.Schema
	err := s.run(ctx, "FindSchema", func(sess *Session, t *Txn) error {
		s.c.mu.Lock()
		defer s.c.mu.Unlock()
		if v := s.data().schemas[version].view(t); v != nil {
			out = cpSchema(v)
			return nil
		}
		return sql.ErrNoRows
	})
	if err != nil {
		return nil, postgres.ResolveError(err)
	}
	return out, nil
}

func (s *Store) FindLatestSchemaVersion(ctx context.Context) (*string, error) {
	if err := s.enter(ctx, "FindLatestSchemaVersion"); err != nil {
		return nil, err
	}
	var out *string
	err := s.run(ctx, "FindLatestSchemaVersion", func(sess *Session, t *Txn) error {
		s.c.mu.Lock()
		defer s.c.mu.Unlock()
		var best *ledger.Schema
		for _, r := range s.data().schemas {
			if v := r.view(t); v != nil && (best == nil || v.CreatedAt.After(best.CreatedAt) || (v.CreatedAt.Equal(best.CreatedAt) && v.Version > best.Version)) {
				best = v
			}
		}
		if best != nil {
			ver := best.Version
			out = &ver
		}
		return nil
	})
	if err != nil {
		return nil, postgres.ResolveError(err)
	}
	return out, nil
}

// ---------------------------------------------------------------------------
// logs

type logRow = ledger.Log // Data holds json.RawMessage-like payload via storedPayload

// storedPayload is how a log's data column is kept: the JSON text. It is
// hydrated on read exactly as storage/ledger.Log.ToCore does.
type storedPayload struct {
	raw     []byte
	memento []byte
}

func (storedPayload) Type() ledger.LogType                   { panic("storedPayload") }
func (storedPayload) NeedsSchema() bool                      { panic("storedPayload") }
func (storedPayload) ValidateWithSchema(ledger.Schema) error { panic("storedPayload") }

func hydrate(l *ledger.Log) ledger.Log {
	r := *l
	sp := l.Data.(storedPayload)
	payload, err := ledger.HydrateLog(l.Type, sp.raw)
	if err != nil {
		panic(fmt.Errorf("hydrating log data: %w", err))
	}
	r.Data = payload
	if l.ID != nil {
		id := *l.ID
		r.ID = &id
	}
	r.Hash = append([]byte(nil), l.Hash...)
	return r
}

// sqlComputeHash is the chain hash as migration 47's compute_hash documents it
// (string concatenation, previous hash as base64 JSON string + newline).
func sqlComputeHash(prev []byte, l *ledger.Log, memento []byte) []byte {
	var b bytes.Buffer
	if prev != nil {
		b.WriteString(`"` + base64.StdEncoding.EncodeToString(prev) + `"` + "\n")
	}
	b.WriteString(`{"type":"` + l.Type.String() + `",`)
	b.WriteString(`"data":`)
	b.Write(memento)
	b.WriteString(`,"date":"` + l.Date.UTC().Format("2006-01-02T15:04:05.999999") + `Z",`)
	b.WriteString(`"idempotencyKey":"` + l.IdempotencyKey + `",`)
	b.WriteString(`"id":0,"hash":null`)
	if l.SchemaVersion != "" {
		b.WriteString(`,"schemaVersion":"` + l.SchemaVersion + `"`)
	}
	b.WriteString("}\n")
	h := sha256.Sum256(b.Bytes())
	return h[:]
}

func (s *Store) InsertLog(ctx context.Context, log *ledger.Log) error {
	if err := s.enter(ctx, "InsertLog"); err != nil {
		return err
	}
	var mapped error
	swallowed := false
	err := s.run(ctx, "InsertLog", func(sess *Session, t *Txn) error {
		d := s.data()
		if s.l.HasFeature(features.FeatureHashLogs, "SYNC") {
			if err := s.c.lock(ctx, sess, fmt.Sprintf("adv|%d", s.l.ID), "InsertLog:advisory", true); err != nil {
				return err
			}
		}
		payloadData, err := json.Marshal(log.Data)
		if err != nil {
			return fmt.Errorf("failed to marshal log data: %w", err)
		}
		mementoObject := log.Data.(any)
		if m, ok := mementoObject.(ledger.Memento); ok {
			mementoObject = m.GetMemento()
		}
		mementoData, err := json.Marshal(mementoObject)
		if err != nil {
			return err
		}
		s.c.mu.Lock()
		var id uint64
		if log.ID == nil {
			d.seqLog++
			id = d.seqLog
		} else {
			id = *log.ID
		}
		s.c.mu.Unlock()
		if err := s.c.lock(ctx, sess, fmt.Sprintf("logid|%s|%d", s.l.Name, id), "InsertLog", true); err != nil {
			return err
		}
		s.c.mu.Lock()
		if r := d.logs[id]; r != nil && r.view(t) != nil {
			s.c.mu.Unlock()
			swallowed = true // real InsertLog only maps logs_idempotency_key; other 23505 fall through its switch
			return pgErr("23505", "duplicate key value violates unique constraint \"logs_ledger\"", "logs_ledger")
		}
		s.c.mu.Unlock()
		if log.IdempotencyKey != "" {
			if err := s.c.lock(ctx, sess, "ik|"+s.l.Name+"|"+log.IdempotencyKey, "InsertLog", true); err != nil {
				return err
			}
			s.c.mu.Lock()
			for _, r := range d.logs {
				if v := r.view(t); v != nil && v.IdempotencyKey == log.IdempotencyKey {
					s.c.mu.Unlock()
					mapped = ledgerstore.NewErrIdempotencyKeyConflict(log.IdempotencyKey)
					return pgErr("23505", "duplicate key value violates unique constraint \"logs_idempotency_key\"", "logs_idempotency_key")
				}
			}
			s.c.mu.Unlock()
		}
		s.c.mu.Lock()
		defer s.c.mu.Unlock()
		log.ID = &id
		if log.Date.IsZero() {
			log.Date = time.New(t.date)
		} else {
			log.Date = trunc(log.Date)
		}
		if s.l.HasFeature(features.FeatureHashLogs, "SYNC") {
			// trigger set_log_hash: previous = visible log with the greatest id
			var prev *ledger.Log
			for _, r := range d.logs {
				if v := r.view(t); v != nil && (prev == nil || *v.ID > *prev.ID) {
					prev = v
				}
			}
			var ph []byte
			if prev != nil {
				ph = prev.Hash
			}
			log.Hash = sqlComputeHash(ph, log, mementoData)
		} else {
			log.Hash = nil
		}
		stored := *log
		sid := id
		stored.ID = &sid
		stored.Hash = append([]byte(nil), log.Hash...)
		stored.Data = storedPayload{raw: payloadData, memento: mementoData}
		row := d.logs[id]
		if row == nil {
			row = &vrow[ledger.Log]{}
			d.logs[id] = row
		}
		setPending(t, row, &stored)
		return nil
	})
	if err != nil {
		if mapped != nil {
			return mapped
		}
		if swallowed {
			return nil
		}
		r := postgres.ResolveError(err)
		if errors.Is(r, postgres.ErrConstraintsFailed{}) {
			return nil
		}
		return fmt.Errorf("inserting log: %w", r)
	}
	return nil
}

func (s *Store) ReadLogWithIdempotencyKey(ctx context.Context, ik string) (*ledger.Log, error) {
	if err := s.enter(ctx, "ReadLogWithIdempotencyKey"); err != nil {
		return nil, err
	}
	var out *ledger.Log
	err := s.run(ctx, "ReadLogWithIdempotencyKey", func(sess *Session, t *Txn) error {
		s.c.mu.Lock()
		defer s.c.mu.Unlock()
		for _, r := range s.data().logs {
			if v := r.view(t); v != nil && v.IdempotencyKey == ik {
				h := hydrate(v)
				out = &h
				return nil
			}
		}
		return sql.ErrNoRows
	})
	if err != nil {
		return nil, postgres.ResolveError(err)
	}
	return out, nil
}

func (s *Store) FindSchemas(ctx context.Context, q common.PaginatedQuery[any]) (*paginate.Cursor[ledger.Schema], error) {
	return s.Schemas().Paginate(ctx, q)
}

func addrArray(a string) []string { return strings.Split(a, ":") }
