// Package gen holds the seeded generators shared by the checks.
//
// numscript.go: grammar-based generator of VALID Numscript programs for the
// machine runtime (internal/machine/script/NumScript.g4), together with the
// store state (balances, account metadata) the program runs against, the
// variables map the machine expects, and a structured description (AST with
// resolved values + a flat per-send summary) so that oracles never parse text.
//
// Attribution rule: every send statement owns destination accounts that no
// other send statement of the same program uses as a destination (they may
// still be *sources* anywhere). A posting therefore belongs to the unique
// statement whose destination set contains posting.Destination.
package gen

import (
	"fmt"
	"math/big"
	"math/rand"
	"sort"
	"strings"
)

// NSAccounts is the small universe of account names (contention / repeats).
var NSAccounts = []string{
	"world", "alice", "bob", "carol", "dave", "users:001", "users:002",
	"bank:main", "pay-in_1", "fees", "escrow", "treasury",
}

// NSAssets is the asset universe (valid for both runtimes).
var NSAssets = []string{"USD/2", "EUR/2", "COIN"}

func pow2(n uint) *big.Int { return new(big.Int).Lsh(big.NewInt(1), n) }

// AmountPoolSpecial: {0,1,2^53±1,2^63±1,2^64±1,10^30, random up to 2^200}.
func AmountPoolSpecial(rng *rand.Rand) *big.Int {
	one := big.NewInt(1)
	switch rng.Intn(10) {
	case 0:
		return big.NewInt(0)
	case 1:
		return big.NewInt(1)
	case 2:
		return new(big.Int).Sub(pow2(53), one)
	case 3:
		return new(big.Int).Add(pow2(53), one)
	case 4:
		return new(big.Int).Sub(pow2(63), one)
	case 5:
		return new(big.Int).Add(pow2(63), one)
	case 6:
		return new(big.Int).Sub(pow2(64), one)
	case 7:
		return new(big.Int).Add(pow2(64), one)
	case 8:
		return new(big.Int).Exp(big.NewInt(10), big.NewInt(30), nil)
	default:
		return new(big.Int).Rand(rng, pow2(uint(1+rng.Intn(200))))
	}
}

// NSAmount: small most of the time (so that programs succeed often), pool otherwise.
func NSAmount(rng *rand.Rand) *big.Int {
	switch x := rng.Intn(100); {
	case x < 4:
		return big.NewInt(0)
	case x < 60:
		return big.NewInt(int64(1 + rng.Intn(20)))
	case x < 88:
		return big.NewInt(int64(1 + rng.Intn(300)))
	default:
		return AmountPoolSpecial(rng)
	}
}

// ---------------------------------------------------------------------------
// store state

type NSWorld struct {
	Balances map[string]map[string]*big.Int `json:"balances"`
	// Meta: accounts present here "exist" (possibly with no key).
	Meta map[string]map[string]string `json:"meta"`
}

// Balance returns a fresh copy of the initial balance (0 when absent).
func (w *NSWorld) Balance(acc, asset string) *big.Int {
	if m, ok := w.Balances[acc]; ok {
		if b, ok := m[asset]; ok {
			return new(big.Int).Set(b)
		}
	}
	return new(big.Int)
}

func (w *NSWorld) Clone() *NSWorld {
	c := &NSWorld{Balances: map[string]map[string]*big.Int{}, Meta: map[string]map[string]string{}}
	for a, m := range w.Balances {
		c.Balances[a] = map[string]*big.Int{}
		for k, v := range m {
			c.Balances[a][k] = new(big.Int).Set(v)
		}
	}
	for a, m := range w.Meta {
		c.Meta[a] = map[string]string{}
		for k, v := range m {
			c.Meta[a][k] = v
		}
	}
	return c
}

func genWorld(rng *rand.Rand) *NSWorld {
	w := &NSWorld{Balances: map[string]map[string]*big.Int{}, Meta: map[string]map[string]string{}}
	for _, a := range NSAccounts {
		if rng.Intn(10) != 0 {
			w.Meta[a] = map[string]string{}
		}
		if a == "world" {
			// world is never queried by the machine; give it a (negative) balance sometimes
			if rng.Intn(2) == 0 {
				w.Balances[a] = map[string]*big.Int{NSAssets[0]: new(big.Int).Neg(AmountPoolSpecial(rng))}
			}
			continue
		}
		for _, as := range NSAssets {
			var b *big.Int
			switch x := rng.Intn(100); {
			case x < 20:
				continue // absent => 0
			case x < 25:
				b = big.NewInt(0)
			case x < 70:
				b = big.NewInt(int64(rng.Intn(400)))
			case x < 80:
				b = big.NewInt(int64(rng.Intn(20000)))
			case x < 88:
				b = big.NewInt(-int64(1 + rng.Intn(300)))
			case x < 95:
				b = AmountPoolSpecial(rng)
			default:
				b = new(big.Int).Neg(AmountPoolSpecial(rng))
			}
			if w.Balances[a] == nil {
				w.Balances[a] = map[string]*big.Int{}
			}
			w.Balances[a][as] = b
		}
	}
	return w
}

// ---------------------------------------------------------------------------
// AST (every node carries its resolved value)

type NSVar struct {
	Name   string
	Type   string // account | asset | number | string | monetary | portion
	Origin string // "" | meta | balance
	// meta(OriginAccount, OriginKey) / balance(OriginAccount, OriginAsset)
	OriginAccount *NSAccount
	OriginKey     string
	OriginAsset   *NSAsset
	// Raw: value in the vars map (no origin) or in the account metadata (meta);
	// for balance(): "ASSET n" with n the initial balance.
	Raw string
}

type NSAccount struct {
	Name string
	Var  *NSVar
}

type NSAsset struct {
	Name string
	Var  *NSVar
}

// NSMonetary: base term (literal [Asset Amount] or variable holding
// [AssetName Amount]) optionally followed by (+|-) Rhs.
type NSMonetary struct {
	Asset     NSAsset  // literal rendering
	AssetName string   // resolved asset of the base term
	Amount    *big.Int // resolved amount of the base term
	Var       *NSVar
	Op        byte // 0, '+', '-'
	Rhs       *NSMonetary
}

// Value is the resolved amount of the whole expression (may be negative with '-').
func (m *NSMonetary) Value() *big.Int {
	v := new(big.Int).Set(m.Amount)
	if m.Op == '+' {
		v.Add(v, m.Rhs.Value())
	} else if m.Op == '-' {
		v.Sub(v, m.Rhs.Value())
	}
	return v
}

type NSPortion struct {
	Remaining bool
	Text      string   // literal: "1/3" or "12.5%"
	Rat       *big.Rat // resolved (nil for remaining)
	Var       *NSVar
}

type NSNumber struct {
	Lit *big.Int
	Var *NSVar
	Op  byte
	Rhs *big.Int
}

type NSString struct {
	Lit string
	Var *NSVar
}

// NSValue: any value usable in set_tx_meta / set_account_meta / print.
type NSValue struct {
	Account  *NSAccount
	Asset    *NSAsset
	Number   *NSNumber
	String   *NSString
	Monetary *NSMonetary
	Portion  *NSPortion
}

type NSSource struct {
	Kind string // account | max | inorder | allotment
	// account
	Account   *NSAccount
	Overdraft string // "" | bounded | unbounded
	Bound     *NSMonetary
	// max
	Cap *NSMonetary
	Sub *NSSource
	// inorder / allotment
	Subs     []*NSSource
	Portions []*NSPortion
}

type NSDestItem struct {
	Cap     *NSMonetary // inorder clause (nil for the `remaining` clause)
	Portion *NSPortion  // allotment clause
	Kept    bool
	To      *NSDest
}

type NSDest struct {
	Kind    string // account | inorder | allotment
	Account *NSAccount
	Items   []*NSDestItem // inorder: last item is the `remaining` clause
}

type NSStatement struct {
	Kind string // send | save | set_tx_meta | set_account_meta | print | fail
	// send / save
	All       bool
	Mon       *NSMonetary
	AllAsset  *NSAsset
	Source    *NSSource
	Dest      *NSDest
	DestFirst bool // machine-only syntax: destination before source
	// save / set_account_meta
	Account *NSAccount
	// metadata / print
	Key   string
	Value *NSValue
}

// Asset of a send/save statement (resolved).
func (s *NSStatement) AssetName() string {
	if s.All {
		return s.AllAsset.Name
	}
	return s.Mon.AssetName
}

// ---------------------------------------------------------------------------
// flat description

type NSSourceDesc struct {
	Account   string   `json:"account"`
	Unbounded bool     `json:"unbounded"` // world or `allowing unbounded overdraft`
	Bound     *big.Int `json:"bound"`     // 0 without clause
}

type NSSendDesc struct {
	Stmt         int            `json:"stmt"` // index in Program.Stmts
	Asset        string         `json:"asset"`
	All          bool           `json:"all"`    // send [A *]
	Amount       *big.Int       `json:"amount"` // nil when All
	Sources      []NSSourceDesc `json:"sources"`
	Destinations []string       `json:"destinations"` // disjoint from every other send's
	Kept         bool           `json:"kept"`
}

type NSProgram struct {
	Text     string            `json:"text"`
	Vars     map[string]string `json:"vars"`
	World    *NSWorld          `json:"world"`
	Sends    []NSSendDesc      `json:"sends"`
	Features map[string]bool   `json:"features"`
	Note     string            `json:"note"`
	Stmts    []*NSStatement    `json:"-"`
	Common   bool              `json:"common_subset"`
}

const nsNote = "each send statement has destination accounts disjoint from every other send's destinations: a posting belongs to the statement whose destination set contains its destination"

// ---------------------------------------------------------------------------
// options

type NSOptions struct {
	// CommonSubset restricts output to what both the machine and the
	// interpreter runtime support (see NSCommonSubset).
	CommonSubset  bool
	MaxStatements int // default 4
	// Exclude names constructs the generator must not emit (see NSExcludable).
	Exclude map[string]bool
}

// NSExcludable: keys accepted in NSOptions.Exclude.
var NSExcludable = map[string]string{
	"kept":                "no `kept` destination",
	"negative_monetary":   "no monetary subtraction whose result is negative",
	"dup_balance_account": "at most one balance() variable per account",
	"save":                "no `save` statement",
}

// NSCommonSubset documents what CommonSubset removes.
var NSCommonSubset = []string{
	"machine grammar NumScript.g4 only (no interpreter-only syntax, no feature flags)",
	"`source =` always before `destination =` (the interpreter grammar fixes the order)",
	"no `print`, no `fail` (absent from the interpreter)",
	"asset literals match ^[A-Z][A-Z0-9]*(/[0-9]+)?$; strings without backslash or quote",
	"account-typed variables never hold `world` (machine: 'can only be used as a variable in the experimental interpreter')",
	"exactly the needed variables are supplied (the machine rejects extraneous ones)",
}

// ---------------------------------------------------------------------------
// generator

type nsGen struct {
	rng      *rand.Rand
	opt      NSOptions
	w        *NSWorld
	vars     []*NSVar
	nvar     int
	destPool []string
	feat     map[string]bool
	balVars  map[string]*NSVar // account -> balance() variable
	srcUsed  map[string]bool   // accounts used as sources of the current send
	asset    string            // main asset of the program
}

func (g *nsGen) p(pct int) bool { return g.rng.Intn(100) < pct }

func (g *nsGen) newVar(typ, raw string) *NSVar {
	g.nvar++
	v := &NSVar{Name: fmt.Sprintf("%s%d", map[string]string{"account": "acc", "asset": "ast", "number": "n", "string": "s", "monetary": "m", "portion": "p"}[typ], g.nvar), Type: typ, Raw: raw}
	g.feat["var_"+typ] = true
	// origin meta(): the value is read from some account's metadata
	if g.p(30) {
		holder := g.pickAccountName(false)
		key := fmt.Sprintf("k_%s", v.Name)
		v.Origin = "meta"
		v.OriginAccount = g.accountNode(holder, true)
		if g.p(25) { // meta($x, ...) through an already declared account variable
			for _, o := range g.vars {
				if o.Type == "account" && o.Raw != "world" {
					holder = o.Raw
					v.OriginAccount = &NSAccount{Name: holder, Var: o}
					g.feat["meta_via_var"] = true
					break
				}
			}
		}
		v.OriginKey = key
		g.feat["meta"] = true
		if !g.p(3) { // 3%: key deliberately missing
			if g.w.Meta[holder] == nil {
				g.w.Meta[holder] = map[string]string{}
			}
			g.w.Meta[holder][key] = raw
		} else {
			g.feat["meta_missing"] = true
		}
	}
	g.vars = append(g.vars, v)
	return v
}

func (g *nsGen) pickAccountName(allowWorld bool) string {
	for {
		a := NSAccounts[g.rng.Intn(len(NSAccounts))]
		if a == "world" && !allowWorld {
			continue
		}
		return a
	}
}

// accountNode: literal or (sometimes, unless plain) an account variable.
func (g *nsGen) accountNode(name string, plain bool) *NSAccount {
	n := &NSAccount{Name: name}
	if plain || !g.p(14) {
		return n
	}
	if name == "world" && g.opt.CommonSubset {
		return n
	}
	// reuse an existing variable with that value
	for _, v := range g.vars {
		if v.Type == "account" && v.Raw == name && g.p(60) {
			n.Var = v
			return n
		}
	}
	n.Var = g.newVar("account", name)
	return n
}

func (g *nsGen) assetNode(name string) *NSAsset {
	n := &NSAsset{Name: name}
	if !g.p(8) {
		return n
	}
	for _, v := range g.vars {
		if v.Type == "asset" && v.Raw == name {
			n.Var = v
			return n
		}
	}
	n.Var = g.newVar("asset", name)
	return n
}

func (g *nsGen) monLit(asset string, amt *big.Int) *NSMonetary {
	return &NSMonetary{Asset: *g.assetNode(asset), AssetName: asset, Amount: amt}
}

// monetary expression of the given asset whose base amount is amt.
func (g *nsGen) monetary(asset string, amt *big.Int, allowExpr bool) *NSMonetary {
	m := g.monLit(asset, amt)
	if g.p(12) {
		// variable
		m = &NSMonetary{AssetName: asset, Amount: amt}
		m.Asset = NSAsset{Name: asset}
		if g.p(35) {
			// balance() origin: value is whatever the account holds
			acc := g.pickAccountName(false)
			if len(g.balVars) > 0 && g.p(55) { // read an account a balance() variable already reads
				var names []string
				for a := range g.balVars {
					names = append(names, a)
				}
				sort.Strings(names)
				acc = names[g.rng.Intn(len(names))]
			}
			b := g.w.Balance(acc, asset)
			m.Amount = b
			if prev := g.balVars[acc]; prev != nil && (g.opt.Exclude["dup_balance_account"] || g.p(35)) {
				if prev.OriginAsset.Name == asset {
					m.Var = prev
				} else {
					m.Var = nil
					m.Amount = amt
				}
			} else {
				g.nvar++
				v := &NSVar{Name: fmt.Sprintf("bal%d", g.nvar), Type: "monetary", Origin: "balance",
					OriginAccount: g.accountNode(acc, g.p(80)), OriginAsset: g.assetNode(asset)}
				v.Raw = asset + " " + b.String()
				g.vars = append(g.vars, v)
				if prev != nil {
					g.feat["balance_fn_twice_same_account"] = true
				}
				g.balVars[acc] = v
				m.Var = v
			}
			g.feat["balance_fn"] = true
			if m.Var != nil && b.Sign() < 0 {
				g.feat["balance_fn_negative"] = true
			}
		} else {
			m.Var = g.newVar("monetary", asset+" "+amt.String())
		}
	}
	if allowExpr && g.p(7) {
		m.Rhs = g.monLit(asset, big.NewInt(int64(g.rng.Intn(5))))
		m.Op = '+'
		if g.p(40) {
			m.Op = '-'
			if m.Amount.Cmp(m.Rhs.Amount) < 0 {
				if g.opt.Exclude["negative_monetary"] {
					m.Op = '+'
				} else {
					g.feat["negative_monetary"] = true
				}
			}
		}
		g.feat["monetary_arith"] = true
	}
	return m
}

func (g *nsGen) sourceAccount(allowUnbounded bool, taken map[string]bool, asset string) *NSSource {
	for try := 0; try < 20; try++ {
		name := g.pickAccountName(allowUnbounded && g.p(70))
		if allowUnbounded && g.p(25) {
			name = "world"
		}
		acc := g.accountNode(name, false)
		key := "lit:" + name
		if acc.Var != nil {
			key = "var:" + acc.Var.Name
		}
		if taken[key] {
			continue
		}
		s := &NSSource{Kind: "account", Account: acc}
		if !(name == "world" && acc.Var == nil) {
			switch x := g.rng.Intn(100); {
			case x < 18:
				s.Overdraft = "bounded"
				s.Bound = g.monetary(asset, NSAmount(g.rng), false)
				g.feat["overdraft_bounded"] = true
			case x < 30 && allowUnbounded:
				s.Overdraft = "unbounded"
				g.feat["overdraft_unbounded"] = true
			}
		}
		if name == "world" && acc.Var != nil && s.Overdraft != "unbounded" {
			// a bounded `$x`=world source makes the machine fail with invalid vars: keep it rare
			if !g.p(10) {
				continue
			}
			g.feat["world_via_var_bounded"] = true
		}
		taken[key] = true
		return s
	}
	return nil
}

// source generates a `source` (not an allotment). allowUnbounded: a world /
// unbounded account may appear as the LAST leaf. Returns the set of emptied
// keys (compile-time "already empty" rule) through taken.
func (g *nsGen) source(depth int, allowUnbounded bool, taken map[string]bool, asset string) *NSSource {
	x := g.rng.Intn(100)
	switch {
	case depth < 2 && x < 16:
		// max: inner scope has its own emptied set and accepts unbounded anywhere
		sub := g.source(depth+1, true, map[string]bool{}, asset)
		if sub == nil {
			return nil
		}
		g.feat["max_source"] = true
		return &NSSource{Kind: "max", Cap: g.monetary(asset, NSAmount(g.rng), true), Sub: sub}
	case depth < 2 && x < 42:
		n := 1 + g.rng.Intn(3)
		s := &NSSource{Kind: "inorder"}
		for i := 0; i < n; i++ {
			c := g.source(depth+1, allowUnbounded && i == n-1, taken, asset)
			if c != nil {
				s.Subs = append(s.Subs, c)
			}
		}
		if len(s.Subs) == 0 {
			return nil
		}
		g.feat["inorder_source"] = true
		if depth > 0 {
			g.feat["nested_inorder_source"] = true
		}
		return s
	default:
		return g.sourceAccount(allowUnbounded, taken, asset)
	}
}

// portions: k portions summing to 1; possibly one `remaining`, possibly variables.
func (g *nsGen) portions(k int) []*NSPortion {
	out := make([]*NSPortion, k)
	percent := g.p(40)
	var den int64
	if percent {
		den = 100
		if g.p(30) {
			den = 1000 // one decimal
		}
	} else {
		den = []int64{2, 3, 4, 5, 7, 8, 10, 12, 100, 1000, 9973}[g.rng.Intn(11)]
		if den < int64(k) {
			den = int64(k) * 3
		}
	}
	// k weights >= 0 summing to den
	w := make([]int64, k)
	rs := make([]int64, k)
	sum := int64(0)
	for i := range rs {
		rs[i] = 1 + g.rng.Int63n(10)
		sum += rs[i]
	}
	left := den
	for i := 0; i < k-1; i++ {
		w[i] = den * rs[i] / sum
		left -= w[i]
	}
	w[k-1] = left
	if g.p(5) { // a zero portion
		w[k-1] += w[0]
		w[0] = 0
	}
	g.rng.Shuffle(k, func(i, j int) { w[i], w[j] = w[j], w[i] })
	for i := range out {
		p := &NSPortion{Rat: big.NewRat(w[i], den)}
		if percent {
			if den == 100 {
				p.Text = fmt.Sprintf("%d%%", w[i])
			} else {
				p.Text = fmt.Sprintf("%d.%d%%", w[i]/10, w[i]%10)
			}
		} else {
			p.Text = fmt.Sprintf("%d/%d", w[i], den)
			if g.p(10) {
				p.Text = fmt.Sprintf("%d / %d", w[i], den)
			}
		}
		out[i] = p
	}
	// `remaining` replaces one strictly positive portion
	if g.p(45) {
		var cands []int
		for i := range w {
			if w[i] > 0 {
				cands = append(cands, i)
			}
		}
		if len(cands) > 0 {
			i := cands[g.rng.Intn(len(cands))]
			out[i] = &NSPortion{Remaining: true}
			g.feat["portion_remaining"] = true
			// variables are only legal next to `remaining`
			for j := range out {
				if j != i && g.p(20) {
					out[j].Var = g.newVar("portion", out[j].Text)
				}
			}
		}
	}
	return out
}

func (g *nsGen) claimDest(own *[]string) string {
	if len(g.destPool) > 0 && (len(*own) == 0 || (len(*own) < 4 && g.p(85))) {
		d := g.destPool[0]
		g.destPool = g.destPool[1:]
		*own = append(*own, d)
		return d
	}
	if len(*own) > 0 {
		return (*own)[g.rng.Intn(len(*own))]
	}
	return "" // caller guarantees the pool is not empty for the first claim
}

func (g *nsGen) dest(depth int, own *[]string, asset string) *NSDest {
	x := g.rng.Intn(100)
	keptOr := func() *NSDestItem {
		if g.p(22) && !g.opt.Exclude["kept"] {
			g.feat["kept"] = true
			return &NSDestItem{Kept: true}
		}
		return &NSDestItem{To: g.dest(depth+1, own, asset)}
	}
	switch {
	case depth < 2 && x < 20:
		d := &NSDest{Kind: "inorder"}
		n := 1 + g.rng.Intn(3)
		for i := 0; i < n; i++ {
			it := keptOr()
			it.Cap = g.monetary(asset, NSAmount(g.rng), true)
			d.Items = append(d.Items, it)
		}
		d.Items = append(d.Items, keptOr())
		g.feat["inorder_dest"] = true
		return d
	case depth < 2 && x < 45:
		d := &NSDest{Kind: "allotment"}
		k := 2 + g.rng.Intn(3)
		for _, p := range g.portions(k) {
			it := keptOr()
			it.Portion = p
			d.Items = append(d.Items, it)
		}
		g.feat["allotment_dest"] = true
		return d
	default:
		return &NSDest{Kind: "account", Account: g.accountNode(g.claimDest(own), false)}
	}
}

func (g *nsGen) send() *NSStatement {
	asset := g.asset
	if g.p(15) {
		asset = NSAssets[g.rng.Intn(len(NSAssets))]
	}
	st := &NSStatement{Kind: "send"}
	if g.p(18) {
		st.All = true
		st.AllAsset = g.assetNode(asset)
		g.feat["send_all"] = true
		for try := 0; st.Source == nil && try < 10; try++ {
			st.Source = g.source(0, false, map[string]bool{}, asset)
		}
	} else {
		st.Mon = g.monetary(asset, NSAmount(g.rng), true)
		if g.p(16) {
			k := 2 + g.rng.Intn(3)
			s := &NSSource{Kind: "allotment", Portions: g.portions(k)}
			for i := 0; i < k; i++ {
				var c *NSSource
				for c == nil {
					c = g.source(1, true, map[string]bool{}, asset)
				}
				s.Subs = append(s.Subs, c)
			}
			st.Source = s
			g.feat["allotment_source"] = true
		} else {
			for try := 0; st.Source == nil && try < 10; try++ {
				st.Source = g.source(0, true, map[string]bool{}, asset)
			}
		}
	}
	if st.Source == nil {
		st.Source = &NSSource{Kind: "account", Account: &NSAccount{Name: g.pickAccountName(false)}}
	}
	var own []string
	st.Dest = g.dest(0, &own, asset)
	if !g.opt.CommonSubset && g.p(10) {
		st.DestFirst = true
		g.feat["destination_first"] = true
	}
	return st
}

var nsStrings = []string{"hello", "order 42", "a-b_c", "x", "", "Zoë", "100%", "user@example", "[USD 1]"}

func (g *nsGen) value(asset string) *NSValue {
	switch g.rng.Intn(6) {
	case 0:
		return &NSValue{Account: g.accountNode(g.pickAccountName(true), false)}
	case 1:
		return &NSValue{Asset: g.assetNode(NSAssets[g.rng.Intn(len(NSAssets))])}
	case 2:
		n := &NSNumber{Lit: NSAmount(g.rng)}
		if g.p(35) {
			n.Var = g.newVar("number", n.Lit.String())
		}
		if g.p(25) {
			n.Op = "+-"[g.rng.Intn(2)]
			n.Rhs = big.NewInt(int64(g.rng.Intn(50)))
			g.feat["number_arith"] = true
		}
		return &NSValue{Number: n}
	case 3:
		s := &NSString{Lit: nsStrings[g.rng.Intn(len(nsStrings))]}
		if g.p(40) {
			s.Var = g.newVar("string", s.Lit)
		}
		return &NSValue{String: s}
	case 4:
		return &NSValue{Monetary: g.monetary(asset, NSAmount(g.rng), true)}
	default:
		ps := g.portions(2)
		p := ps[0]
		if p.Remaining {
			p = ps[1]
		}
		if p.Var == nil && g.p(30) {
			p.Var = g.newVar("portion", p.Text)
		}
		return &NSValue{Portion: p}
	}
}

// GenNumscript generates one program and the store state it runs against.
func GenNumscript(rng *rand.Rand, opt NSOptions) *NSProgram {
	if opt.MaxStatements <= 0 {
		opt.MaxStatements = 4
	}
	g := &nsGen{rng: rng, opt: opt, w: genWorld(rng), feat: map[string]bool{}, balVars: map[string]*NSVar{}}
	g.asset = NSAssets[rng.Intn(len(NSAssets))]
	g.destPool = append([]string{}, NSAccounts...)
	rng.Shuffle(len(g.destPool), func(i, j int) { g.destPool[i], g.destPool[j] = g.destPool[j], g.destPool[i] })

	n := 1 + rng.Intn(opt.MaxStatements)
	if g.p(35) {
		n = 1
	}
	var stmts []*NSStatement
	nsend := 0
	for i := 0; i < n; i++ {
		x := rng.Intn(100)
		switch {
		case x < 62 || (i == n-1 && nsend == 0):
			if len(g.destPool) == 0 {
				continue
			}
			stmts = append(stmts, g.send())
			nsend++
		case x < 76 && !opt.Exclude["save"]:
			st := &NSStatement{Kind: "save", Account: g.accountNode(g.pickAccountName(false), false)}
			if g.p(30) {
				st.All = true
				st.AllAsset = g.assetNode(g.asset)
			} else {
				st.Mon = g.monetary(g.asset, NSAmount(rng), false)
			}
			g.feat["save"] = true
			stmts = append(stmts, st)
		case x < 86:
			g.feat["set_tx_meta"] = true
			stmts = append(stmts, &NSStatement{Kind: "set_tx_meta", Key: fmt.Sprintf("tk%d", rng.Intn(4)), Value: g.value(g.asset)})
		case x < 96:
			g.feat["set_account_meta"] = true
			stmts = append(stmts, &NSStatement{Kind: "set_account_meta", Account: g.accountNode(g.pickAccountName(true), false),
				Key: fmt.Sprintf("ak%d", rng.Intn(4)), Value: g.value(g.asset)})
		default:
			if opt.CommonSubset {
				g.feat["set_tx_meta"] = true
				stmts = append(stmts, &NSStatement{Kind: "set_tx_meta", Key: "tkx", Value: g.value(g.asset)})
			} else if g.p(70) {
				g.feat["print"] = true
				stmts = append(stmts, &NSStatement{Kind: "print", Value: g.value(g.asset)})
			} else {
				g.feat["fail"] = true
				stmts = append(stmts, &NSStatement{Kind: "fail"})
			}
		}
	}
	p := &NSProgram{World: g.w, Stmts: stmts, Features: g.feat, Note: nsNote, Common: opt.CommonSubset}
	p.Finalize()
	return p
}

// ---------------------------------------------------------------------------
// rendering, variable collection, description (recomputed after any AST edit)

type nsRender struct {
	sb   strings.Builder
	vars []*NSVar
	seen map[*NSVar]bool
}

func (r *nsRender) use(v *NSVar) string {
	if !r.seen[v] {
		r.seen[v] = true
		// dependencies first (resource indexes must be increasing)
		if v.OriginAccount != nil && v.OriginAccount.Var != nil {
			r.use(v.OriginAccount.Var)
		}
		if v.OriginAsset != nil && v.OriginAsset.Var != nil {
			r.use(v.OriginAsset.Var)
		}
		r.vars = append(r.vars, v)
	}
	return "$" + v.Name
}

func (r *nsRender) account(a *NSAccount) string {
	if a.Var != nil {
		return r.use(a.Var)
	}
	return "@" + a.Name
}

func (r *nsRender) asset(a *NSAsset) string {
	if a.Var != nil {
		return r.use(a.Var)
	}
	return a.Name
}

func (r *nsRender) monetary(m *NSMonetary) string {
	var s string
	if m.Var != nil {
		s = r.use(m.Var)
	} else {
		s = "[" + r.asset(&m.Asset) + " " + m.Amount.String() + "]"
	}
	if m.Op != 0 {
		s += " " + string(m.Op) + " " + r.monetary(m.Rhs)
	}
	return s
}

func (r *nsRender) portion(p *NSPortion) string {
	if p.Remaining {
		return "remaining"
	}
	if p.Var != nil {
		return r.use(p.Var)
	}
	return p.Text
}

func (r *nsRender) value(v *NSValue) string {
	switch {
	case v.Account != nil:
		return r.account(v.Account)
	case v.Asset != nil:
		return r.asset(v.Asset)
	case v.Number != nil:
		s := v.Number.Lit.String()
		if v.Number.Var != nil {
			s = r.use(v.Number.Var)
		}
		if v.Number.Op != 0 {
			s += " " + string(v.Number.Op) + " " + v.Number.Rhs.String()
		}
		return s
	case v.String != nil:
		if v.String.Var != nil {
			return r.use(v.String.Var)
		}
		return `"` + v.String.Lit + `"`
	case v.Monetary != nil:
		return r.monetary(v.Monetary)
	default:
		return r.portion(v.Portion)
	}
}

func (r *nsRender) source(s *NSSource, ind string) string {
	switch s.Kind {
	case "account":
		out := r.account(s.Account)
		if s.Overdraft == "bounded" {
			out += " allowing overdraft up to " + r.monetary(s.Bound)
		} else if s.Overdraft == "unbounded" {
			out += " allowing unbounded overdraft"
		}
		return out
	case "max":
		return "max " + r.monetary(s.Cap) + " from " + r.source(s.Sub, ind)
	case "inorder":
		out := "{\n"
		for _, c := range s.Subs {
			out += ind + "  " + r.source(c, ind+"  ") + "\n"
		}
		return out + ind + "}"
	default: // allotment
		out := "{\n"
		for i, c := range s.Subs {
			out += ind + "  " + r.portion(s.Portions[i]) + " from " + r.source(c, ind+"  ") + "\n"
		}
		return out + ind + "}"
	}
}

func (r *nsRender) keptOrDest(it *NSDestItem, ind string) string {
	if it.Kept {
		return "kept"
	}
	return "to " + r.dest(it.To, ind)
}

func (r *nsRender) dest(d *NSDest, ind string) string {
	switch d.Kind {
	case "account":
		return r.account(d.Account)
	case "inorder":
		out := "{\n"
		for i, it := range d.Items {
			if i < len(d.Items)-1 {
				out += ind + "  max " + r.monetary(it.Cap) + " " + r.keptOrDest(it, ind+"  ") + "\n"
			} else {
				out += ind + "  remaining " + r.keptOrDest(it, ind+"  ") + "\n"
			}
		}
		return out + ind + "}"
	default:
		out := "{\n"
		for _, it := range d.Items {
			out += ind + "  " + r.portion(it.Portion) + " " + r.keptOrDest(it, ind+"  ") + "\n"
		}
		return out + ind + "}"
	}
}

func (r *nsRender) sent(s *NSStatement) string {
	if s.All {
		return "[" + r.asset(s.AllAsset) + " *]"
	}
	return r.monetary(s.Mon)
}

func (r *nsRender) stmt(s *NSStatement) string {
	switch s.Kind {
	case "send":
		src := "  source = " + r.source(s.Source, "  ")
		dst := "  destination = " + r.dest(s.Dest, "  ")
		head := "send " + r.sent(s) + " (\n"
		if s.DestFirst {
			return head + dst + "\n" + src + "\n)"
		}
		return head + src + "\n" + dst + "\n)"
	case "save":
		return "save " + r.sent(s) + " from " + r.account(s.Account)
	case "set_tx_meta":
		return fmt.Sprintf("set_tx_meta(%q, %s)", s.Key, r.value(s.Value))
	case "set_account_meta":
		return fmt.Sprintf("set_account_meta(%s, %q, %s)", r.account(s.Account), s.Key, r.value(s.Value))
	case "print":
		return "print " + r.value(s.Value)
	default:
		return "fail"
	}
}

func flattenSources(s *NSSource, out *[]NSSourceDesc) {
	switch s.Kind {
	case "account":
		d := NSSourceDesc{Account: s.Account.Name, Bound: new(big.Int)}
		if s.Overdraft == "unbounded" || s.Account.Name == "world" {
			d.Unbounded = true
		} else if s.Overdraft == "bounded" {
			d.Bound = s.Bound.Value()
		}
		*out = append(*out, d)
	case "max":
		flattenSources(s.Sub, out)
	default:
		for _, c := range s.Subs {
			flattenSources(c, out)
		}
	}
}

func flattenDest(d *NSDest, accs map[string]bool, kept *bool) {
	if d.Kind == "account" {
		accs[d.Account.Name] = true
		return
	}
	for _, it := range d.Items {
		if it.Kept {
			*kept = true
		} else {
			flattenDest(it.To, accs, kept)
		}
	}
}

// walkMonetaries visits every monetary expression node of the program.
func (p *NSProgram) walkMonetaries(f func(m *NSMonetary)) {
	var mon func(m *NSMonetary)
	mon = func(m *NSMonetary) {
		if m != nil {
			f(m)
			mon(m.Rhs)
		}
	}
	var src func(s *NSSource)
	src = func(s *NSSource) {
		if s != nil {
			mon(s.Bound)
			mon(s.Cap)
			src(s.Sub)
			for _, c := range s.Subs {
				src(c)
			}
		}
	}
	var dst func(d *NSDest)
	dst = func(d *NSDest) {
		if d != nil {
			for _, it := range d.Items {
				mon(it.Cap)
				dst(it.To)
			}
		}
	}
	for _, s := range p.Stmts {
		mon(s.Mon)
		src(s.Source)
		dst(s.Dest)
		if s.Value != nil {
			mon(s.Value.Monetary)
		}
	}
}

// Finalize (re)computes Text, Vars and Sends from Stmts; balance() variables
// are re-resolved against World (it may have been edited by the shrinker).
func (p *NSProgram) Finalize() {
	p.walkMonetaries(func(m *NSMonetary) {
		if m.Var != nil && m.Var.Origin == "balance" {
			m.Amount = p.World.Balance(m.Var.OriginAccount.Name, m.Var.OriginAsset.Name)
			m.Var.Raw = m.Var.OriginAsset.Name + " " + m.Amount.String()
		}
	})
	r := &nsRender{seen: map[*NSVar]bool{}}
	var body []string
	for _, s := range p.Stmts {
		body = append(body, r.stmt(s))
	}
	var sb strings.Builder
	p.Vars = map[string]string{}
	if len(r.vars) > 0 {
		sb.WriteString("vars {\n")
		for _, v := range r.vars {
			switch v.Origin {
			case "meta":
				fmt.Fprintf(&sb, "  %s $%s = meta(%s, %q)\n", v.Type, v.Name, r.account(v.OriginAccount), v.OriginKey)
			case "balance":
				fmt.Fprintf(&sb, "  %s $%s = balance(%s, %s)\n", v.Type, v.Name, r.account(v.OriginAccount), r.asset(v.OriginAsset))
			default:
				fmt.Fprintf(&sb, "  %s $%s\n", v.Type, v.Name)
				p.Vars[v.Name] = v.Raw
			}
		}
		sb.WriteString("}\n")
	}
	sb.WriteString(strings.Join(body, "\n"))
	sb.WriteString("\n")
	p.Text = sb.String()

	p.Sends = nil
	for i, s := range p.Stmts {
		if s.Kind != "send" {
			continue
		}
		d := NSSendDesc{Stmt: i, Asset: s.AssetName(), All: s.All}
		if !s.All {
			d.Amount = s.Mon.Value()
		}
		flattenSources(s.Source, &d.Sources)
		accs := map[string]bool{}
		flattenDest(s.Dest, accs, &d.Kept)
		for a := range accs {
			d.Destinations = append(d.Destinations, a)
		}
		sort.Strings(d.Destinations)
		p.Sends = append(p.Sends, d)
	}
}

// ---------------------------------------------------------------------------
// shrinking support: every candidate is a structurally smaller program
// (validity is decided by the caller running it).

type nsCloner struct{ vm map[*NSVar]*NSVar }

func (c *nsCloner) v(v *NSVar) *NSVar {
	if v == nil {
		return nil
	}
	if n, ok := c.vm[v]; ok {
		return n
	}
	n := *v
	c.vm[v] = &n
	n.OriginAccount = c.acc(v.OriginAccount)
	n.OriginAsset = c.ast(v.OriginAsset)
	return &n
}
func (c *nsCloner) acc(a *NSAccount) *NSAccount {
	if a == nil {
		return nil
	}
	return &NSAccount{Name: a.Name, Var: c.v(a.Var)}
}
func (c *nsCloner) ast(a *NSAsset) *NSAsset {
	if a == nil {
		return nil
	}
	return &NSAsset{Name: a.Name, Var: c.v(a.Var)}
}
func (c *nsCloner) mon(m *NSMonetary) *NSMonetary {
	if m == nil {
		return nil
	}
	n := *m
	n.Asset = *c.ast(&m.Asset)
	n.Amount = new(big.Int).Set(m.Amount)
	n.Var = c.v(m.Var)
	n.Rhs = c.mon(m.Rhs)
	return &n
}
func (c *nsCloner) por(p *NSPortion) *NSPortion {
	if p == nil {
		return nil
	}
	n := *p
	n.Var = c.v(p.Var)
	return &n
}
func (c *nsCloner) val(v *NSValue) *NSValue {
	if v == nil {
		return nil
	}
	n := &NSValue{Account: c.acc(v.Account), Asset: c.ast(v.Asset), Monetary: c.mon(v.Monetary), Portion: c.por(v.Portion)}
	if v.Number != nil {
		x := *v.Number
		x.Var = c.v(x.Var)
		n.Number = &x
	}
	if v.String != nil {
		x := *v.String
		x.Var = c.v(x.Var)
		n.String = &x
	}
	return n
}
func (c *nsCloner) src(s *NSSource) *NSSource {
	if s == nil {
		return nil
	}
	n := &NSSource{Kind: s.Kind, Account: c.acc(s.Account), Overdraft: s.Overdraft, Bound: c.mon(s.Bound), Cap: c.mon(s.Cap), Sub: c.src(s.Sub)}
	for _, x := range s.Subs {
		n.Subs = append(n.Subs, c.src(x))
	}
	for _, x := range s.Portions {
		n.Portions = append(n.Portions, c.por(x))
	}
	return n
}
func (c *nsCloner) dst(d *NSDest) *NSDest {
	if d == nil {
		return nil
	}
	n := &NSDest{Kind: d.Kind, Account: c.acc(d.Account)}
	for _, it := range d.Items {
		n.Items = append(n.Items, &NSDestItem{Cap: c.mon(it.Cap), Portion: c.por(it.Portion), Kept: it.Kept, To: c.dst(it.To)})
	}
	return n
}

// Clone deep-copies the program (AST, world).
func (p *NSProgram) Clone() *NSProgram {
	c := &nsCloner{vm: map[*NSVar]*NSVar{}}
	n := &NSProgram{World: p.World.Clone(), Features: p.Features, Note: p.Note, Common: p.Common}
	for _, s := range p.Stmts {
		n.Stmts = append(n.Stmts, &NSStatement{Kind: s.Kind, All: s.All, Mon: c.mon(s.Mon), AllAsset: c.ast(s.AllAsset),
			Source: c.src(s.Source), Dest: c.dst(s.Dest), DestFirst: s.DestFirst, Account: c.acc(s.Account), Key: s.Key, Value: c.val(s.Value)})
	}
	n.Finalize()
	return n
}

// nsSlots enumerates, in a deterministic order, every editable place of the
// AST; ShrinkCandidates applies one edit per candidate on a fresh clone.
type nsEdit func() bool // returns false when not applicable

func (p *NSProgram) edits() []nsEdit {
	var es []nsEdit
	// 1. drop a statement
	for i := range p.Stmts {
		i := i
		es = append(es, func() bool {
			if len(p.Stmts) <= 1 {
				return false
			}
			p.Stmts = append(p.Stmts[:i:i], p.Stmts[i+1:]...)
			return true
		})
	}
	var visitMon func(m *NSMonetary)
	var visitAcc func(a *NSAccount)
	var visitAst func(a *NSAsset)
	var visitPor func(x *NSPortion)
	visitAst = func(a *NSAsset) {
		if a == nil {
			return
		}
		es = append(es, func() bool {
			if a.Var == nil {
				return false
			}
			a.Var = nil
			return true
		})
	}
	visitAcc = func(a *NSAccount) {
		if a == nil {
			return
		}
		es = append(es, func() bool {
			if a.Var == nil {
				return false
			}
			a.Var = nil
			return true
		})
		if a.Var != nil && a.Var.OriginAccount != nil {
			visitAcc(a.Var.OriginAccount)
		}
	}
	visitMon = func(m *NSMonetary) {
		if m == nil {
			return
		}
		es = append(es, func() bool {
			if m.Var == nil {
				return false
			}
			m.Var = nil
			return true
		}, func() bool {
			if m.Op == 0 {
				return false
			}
			m.Op, m.Rhs = 0, nil
			return true
		}, func() bool { // halve a literal amount
			if m.Var != nil || m.Amount.Sign() <= 0 {
				return false
			}
			m.Amount = new(big.Int).Rsh(m.Amount, 1)
			return true
		}, func() bool { // decrement a literal amount
			if m.Var != nil || m.Amount.Sign() <= 0 {
				return false
			}
			m.Amount = new(big.Int).Sub(m.Amount, big.NewInt(1))
			return true
		})
		visitAst(&m.Asset)
		if m.Var != nil {
			visitAcc(m.Var.OriginAccount)
			visitAst(m.Var.OriginAsset)
		}
		visitMon(m.Rhs)
	}
	visitPor = func(x *NSPortion) {
		if x == nil {
			return
		}
		es = append(es, func() bool {
			if x.Var == nil {
				return false
			}
			x.Var = nil
			return true
		})
	}
	var visitSrc func(get func() *NSSource, set func(*NSSource))
	visitSrc = func(get func() *NSSource, set func(*NSSource)) {
		s := get()
		if s == nil {
			return
		}
		switch s.Kind {
		case "account":
			visitAcc(s.Account)
			es = append(es, func() bool {
				if s.Overdraft == "" {
					return false
				}
				s.Overdraft, s.Bound = "", nil
				return true
			})
			visitMon(s.Bound)
		case "max":
			es = append(es, func() bool { set(s.Sub); return true })
			visitMon(s.Cap)
			visitSrc(func() *NSSource { return s.Sub }, func(n *NSSource) { s.Sub = n })
		case "inorder":
			for i := range s.Subs {
				i := i
				es = append(es, func() bool { set(s.Subs[i]); return true })
				es = append(es, func() bool {
					if len(s.Subs) <= 1 {
						return false
					}
					s.Subs = append(s.Subs[:i:i], s.Subs[i+1:]...)
					return true
				})
				visitSrc(func() *NSSource { return s.Subs[i] }, func(n *NSSource) { s.Subs[i] = n })
			}
		default:
			for i := range s.Subs {
				i := i
				es = append(es, func() bool { set(s.Subs[i]); return true })
				es = append(es, func() bool { // merge branch i into `remaining`
					if len(s.Subs) <= 2 {
						return false
					}
					s.Subs = append(s.Subs[:i:i], s.Subs[i+1:]...)
					s.Portions = append(s.Portions[:i:i], s.Portions[i+1:]...)
					for _, q := range s.Portions {
						if q.Remaining {
							return true
						}
					}
					s.Portions[len(s.Portions)-1] = &NSPortion{Remaining: true}
					return true
				})
				visitPor(s.Portions[i])
				visitSrc(func() *NSSource { return s.Subs[i] }, func(n *NSSource) { s.Subs[i] = n })
			}
		}
	}
	var visitDst func(get func() *NSDest, set func(*NSDest), sink string)
	visitDst = func(get func() *NSDest, set func(*NSDest), sink string) {
		d := get()
		if d == nil {
			return
		}
		if d.Kind == "account" {
			visitAcc(d.Account)
			return
		}
		for i := range d.Items {
			i := i
			it := d.Items[i]
			if !it.Kept {
				es = append(es, func() bool { set(it.To); return true })
			} else {
				es = append(es, func() bool {
					if !it.Kept || sink == "" {
						return false
					}
					it.Kept = false
					it.To = &NSDest{Kind: "account", Account: &NSAccount{Name: sink}}
					return true
				})
			}
			es = append(es, func() bool { // drop a clause
				last := len(d.Items) - 1
				if d.Kind == "inorder" {
					if i == last || len(d.Items) <= 2 {
						return false
					}
					d.Items = append(d.Items[:i:i], d.Items[i+1:]...)
					return true
				}
				if len(d.Items) <= 2 {
					return false
				}
				d.Items = append(d.Items[:i:i], d.Items[i+1:]...)
				for _, q := range d.Items {
					if q.Portion.Remaining {
						return true
					}
				}
				d.Items[len(d.Items)-1].Portion = &NSPortion{Remaining: true}
				return true
			})
			visitMon(it.Cap)
			visitPor(it.Portion)
			if !it.Kept {
				visitDst(func() *NSDest { return it.To }, func(n *NSDest) { it.To = n }, sink)
			}
		}
	}
	for _, s := range p.Stmts {
		s := s
		visitMon(s.Mon)
		visitAst(s.AllAsset)
		visitAcc(s.Account)
		if s.Kind == "send" {
			visitSrc(func() *NSSource { return s.Source }, func(n *NSSource) {
				if n.Kind != "allotment" {
					s.Source = n
				}
			})
			visitDst(func() *NSDest { return s.Dest }, func(n *NSDest) { s.Dest = n }, p.sinkFor(s))
			es = append(es, func() bool {
				if !s.DestFirst {
					return false
				}
				s.DestFirst = false
				return true
			})
		}
		if v := s.Value; v != nil {
			visitAcc(v.Account)
			visitAst(v.Asset)
			visitMon(v.Monetary)
			visitPor(v.Portion)
			if n := v.Number; n != nil {
				es = append(es, func() bool {
					if n.Var == nil {
						return false
					}
					n.Var = nil
					return true
				}, func() bool {
					if n.Op == 0 {
						return false
					}
					n.Op = 0
					return true
				})
			}
			if x := v.String; x != nil {
				es = append(es, func() bool {
					if x.Var == nil {
						return false
					}
					x.Var = nil
					return true
				})
			}
		}
	}
	// world simplifications: zero / drop balances and metadata
	var accs []string
	for a := range p.World.Balances {
		accs = append(accs, a)
	}
	sort.Strings(accs)
	for _, a := range accs {
		a := a
		var assets []string
		for as := range p.World.Balances[a] {
			assets = append(assets, as)
		}
		sort.Strings(assets)
		for _, as := range assets {
			as := as
			es = append(es, func() bool { delete(p.World.Balances[a], as); return true })
			es = append(es, func() bool {
				b := p.World.Balances[a][as]
				if b.BitLen() < 2 {
					return false
				}
				p.World.Balances[a][as] = new(big.Int).Quo(b, big.NewInt(2))
				return true
			})
			es = append(es, func() bool {
				b := p.World.Balances[a][as]
				if b.Sign() == 0 {
					return false
				}
				p.World.Balances[a][as] = new(big.Int).Sub(b, big.NewInt(int64(b.Sign())))
				return true
			})
		}
	}
	return es
}

// NumEdits is the number of edit slots of the program.
func (p *NSProgram) NumEdits() int { return len(p.edits()) }

// ShrinkCandidate returns a clone with edit i applied (nil when not applicable).
func (p *NSProgram) ShrinkCandidate(i int) *NSProgram {
	c := p.Clone()
	es := c.edits()
	if i >= len(es) || !es[i]() {
		return nil
	}
	c.Finalize()
	if c.Text == p.Text && fmt.Sprint(c.World.Balances) == fmt.Sprint(p.World.Balances) {
		return nil
	}
	return c
}

// ShrinkNumscript greedily minimises p while keep(p) stays true.
func ShrinkNumscript(p *NSProgram, keep func(*NSProgram) bool, budget int) *NSProgram {
	cur := p
	for progress := true; progress && budget > 0; {
		progress = false
		n := cur.NumEdits()
		for i := 0; i < n && budget > 0; i++ {
			c := cur.ShrinkCandidate(i)
			if c == nil {
				continue
			}
			budget--
			if keep(c) {
				cur = c
				progress = true
				break
			}
		}
	}
	return cur
}

// ---------------------------------------------------------------------------
// Shape: the statement / source / destination trees without names and amounts.

func srcShape(s *NSSource) string {
	switch s.Kind {
	case "account":
		o := "a"
		if s.Account.Name == "world" {
			o = "w"
		}
		if s.Account.Var != nil {
			o += "$"
		}
		if s.Overdraft == "bounded" {
			o += "+ob"
		} else if s.Overdraft == "unbounded" {
			o += "+ou"
		}
		return o
	case "max":
		return "max(" + srcShape(s.Sub) + ")"
	}
	var parts []string
	for i, c := range s.Subs {
		x := srcShape(c)
		if s.Kind == "allotment" {
			switch {
			case s.Portions[i].Remaining:
				x = "rem:" + x
			case s.Portions[i].Var != nil:
				x = "$:" + x
			}
		}
		parts = append(parts, x)
	}
	return s.Kind[:2] + "{" + strings.Join(parts, ",") + "}"
}

func dstShape(d *NSDest) string {
	if d.Kind == "account" {
		if d.Account.Var != nil {
			return "a$"
		}
		return "a"
	}
	var parts []string
	for _, it := range d.Items {
		x := "kept"
		if !it.Kept {
			x = dstShape(it.To)
		}
		if it.Portion != nil {
			switch {
			case it.Portion.Remaining:
				x = "rem:" + x
			case it.Portion.Var != nil:
				x = "$:" + x
			}
		}
		parts = append(parts, x)
	}
	return d.Kind[:2] + "{" + strings.Join(parts, ",") + "}"
}

func monShape(m *NSMonetary) string {
	o := "lit"
	if m.Var != nil {
		o = "$" + m.Var.Origin
	}
	if m.Op != 0 {
		o += string(m.Op)
	}
	return o
}

// Shape identifies the structure of the program.
func (p *NSProgram) Shape() string {
	var parts []string
	for _, s := range p.Stmts {
		switch s.Kind {
		case "send":
			h := "send*"
			if !s.All {
				h = "send:" + monShape(s.Mon)
			}
			parts = append(parts, h+"("+srcShape(s.Source)+"=>"+dstShape(s.Dest)+")")
		case "save":
			if s.All {
				parts = append(parts, "save*")
			} else {
				parts = append(parts, "save")
			}
		default:
			parts = append(parts, s.Kind)
		}
	}
	return strings.Join(parts, ";")
}

// ---------------------------------------------------------------------------
// Uses reports, from the AST as it is now (after shrinking too), which of the
// NSExcludable constructs the program contains.
func (p *NSProgram) Uses() map[string]bool {
	u := map[string]bool{}
	balAcc := map[string]*NSVar{}
	var seeVar func(v *NSVar)
	seeVar = func(v *NSVar) {
		if v == nil {
			return
		}
		if v.Origin == "balance" {
			if o, ok := balAcc[v.OriginAccount.Name]; ok && o != v {
				u["dup_balance_account"] = true
			}
			balAcc[v.OriginAccount.Name] = v
		}
		if v.OriginAccount != nil {
			seeVar(v.OriginAccount.Var)
		}
	}
	var mon func(m *NSMonetary)
	mon = func(m *NSMonetary) {
		if m == nil {
			return
		}
		seeVar(m.Var)
		if m.Value().Sign() < 0 {
			u["negative_monetary"] = true
		}
		mon(m.Rhs)
	}
	var src func(s *NSSource, seen map[string]bool)
	src = func(s *NSSource, seen map[string]bool) {
		if s == nil {
			return
		}
		if s.Kind == "account" {
			seeVar(s.Account.Var)
			if seen[s.Account.Name] {
				u["repeated_source"] = true
			}
			seen[s.Account.Name] = true
			if s.Overdraft == "bounded" {
				u["overdraft_bounded"] = true
				mon(s.Bound)
			}
			return
		}
		mon(s.Cap)
		src(s.Sub, seen)
		for _, c := range s.Subs {
			src(c, seen)
		}
	}
	var dst func(d *NSDest)
	dst = func(d *NSDest) {
		if d.Kind == "account" {
			seeVar(d.Account.Var)
			return
		}
		for _, it := range d.Items {
			mon(it.Cap)
			if it.Kept {
				u["kept"] = true
			} else {
				dst(it.To)
			}
		}
	}
	for i, s := range p.Stmts {
		mon(s.Mon)
		if s.Value != nil {
			mon(s.Value.Monetary)
		}
		switch s.Kind {
		case "save":
			u["save"] = true
		case "send":
			seen := map[string]bool{}
			src(s.Source, seen)
			dst(s.Dest)
			for _, sd := range p.Sends {
				if sd.Stmt == i {
					for _, d := range sd.Destinations {
						if seen[d] {
							u["source_is_own_dest"] = true
						}
					}
				}
			}
		}
	}
	return u
}

// sinkFor returns an account that statement s may use as an extra destination
// without breaking the disjoint-destinations rule.
func (p *NSProgram) sinkFor(s *NSStatement) string {
	other := map[string]bool{}
	var own []string
	for _, st := range p.Stmts {
		if st.Kind != "send" {
			continue
		}
		accs := map[string]bool{}
		k := false
		flattenDest(st.Dest, accs, &k)
		for a := range accs {
			if st == s {
				own = append(own, a)
			} else {
				other[a] = true
			}
		}
	}
	if len(own) > 0 {
		sort.Strings(own)
		return own[0]
	}
	for _, a := range NSAccounts {
		if !other[a] {
			return a
		}
	}
	return "sink"
}

func unkeep(d *NSDest, sink string) {
	for _, it := range d.Items {
		if it.Kept {
			it.Kept = false
			it.To = &NSDest{Kind: "account", Account: &NSAccount{Name: sink}}
		} else if it.To != nil {
			unkeep(it.To, sink)
		}
	}
}

// Without returns a copy of the program in which one NSExcludable construct is
// neutralised everywhere: kept -> `to <an own destination>`, save -> statement
// dropped, negative_monetary -> the subtraction dropped, dup_balance_account ->
// balance() variables inlined. Used to attribute a disagreement to a construct.
func (p *NSProgram) Without(cause string) *NSProgram {
	c := p.Clone()
	var mon func(m *NSMonetary)
	mon = func(m *NSMonetary) {
		if m == nil {
			return
		}
		switch cause {
		case "negative_monetary":
			if m.Op == '-' && m.Value().Sign() < 0 {
				m.Op, m.Rhs = 0, nil
			}
		case "dup_balance_account":
			if m.Var != nil && m.Var.Origin == "balance" {
				m.Var = nil
			}
		}
		mon(m.Rhs)
	}
	var src func(s *NSSource)
	src = func(s *NSSource) {
		if s == nil {
			return
		}
		mon(s.Bound)
		mon(s.Cap)
		src(s.Sub)
		for _, x := range s.Subs {
			src(x)
		}
	}
	var dst func(d *NSDest)
	dst = func(d *NSDest) {
		if d == nil {
			return
		}
		for _, it := range d.Items {
			mon(it.Cap)
			dst(it.To)
		}
	}
	var stmts []*NSStatement
	for _, s := range c.Stmts {
		if cause == "save" && s.Kind == "save" {
			continue
		}
		mon(s.Mon)
		if s.Value != nil {
			mon(s.Value.Monetary)
		}
		if s.Kind == "send" {
			src(s.Source)
			dst(s.Dest)
			if cause == "kept" {
				unkeep(s.Dest, c.sinkFor(s))
			}
		}
		stmts = append(stmts, s)
	}
	if len(stmts) == 0 {
		return nil
	}
	c.Stmts = stmts
	c.Finalize()
	return c
}
