// Package microsql evaluates exactly the statement family that /repo's
// storage/common repository + paginators wrap around a dataset the harness owns:
//
//	[WITH name AS (select) [, ...]] select
//	select := SELECT (*|count(*)|alias.*) FROM (select | "schema"."table" | name) [AS alias]
//	          [WHERE bool] [ORDER BY col [ASC|DESC], ...] [LIMIT n] [OFFSET n]
//	bool   := and / or / not / parens over: col <op> literal | col IS [NOT] NULL | vp(k) | col IN (lit,...)
//
// Anything else is ErrUnsupported (the caller treats that as inconclusive /
// SQL error, never as a verdict). NULL follows SQL three-valued logic; ORDER BY
// puts NULLs last for ASC and first for DESC, as Postgres does.
package microsql

import (
	"errors"
	"fmt"
	"math/big"
	"sort"
	"strconv"
	"strings"
	"time"
)

var ErrUnsupported = errors.New("microsql: unsupported statement")

type Kind int

const (
	KNum Kind = iota
	KStr
	KTime
	KBool
	KOpaque // carried through, not comparable
)

type Col struct {
	Name string
	Kind Kind
}

// Table is a dataset. Values: nil | *big.Int | string | time.Time | bool | any (opaque).
type Table struct {
	Cols []Col
	Rows [][]any
	// Preds are the opaque leaf predicates referenced as vp(k).
	Preds []func(row []any) bool
}

func (t *Table) colIndex(name string) int {
	for i, c := range t.Cols {
		if c.Name == name {
			return i
		}
	}
	return -1
}

// Resolver finds a base table by schema-qualified name.
type Resolver func(schema, name string) *Table

type Result struct {
	Count   *int64 // set for count(*)
	Table   *Table
	RowIdx  [][]any
}

// ---- lexer ----

type tok struct {
	k string // id, qid, str, num, op, eof
	v string
}

func lex(s string) ([]tok, error) {
	var out []tok
	i := 0
	for i < len(s) {
		c := s[i]
		switch {
		case c == ' ' || c == '\n' || c == '\t' || c == '\r':
			i++
		case c == '"':
			j := i + 1
			var b strings.Builder
			for j < len(s) {
				if s[j] == '"' {
					if j+1 < len(s) && s[j+1] == '"' {
						b.WriteByte('"')
						j += 2
						continue
					}
					break
				}
				b.WriteByte(s[j])
				j++
			}
			if j >= len(s) {
				return nil, fmt.Errorf("%w: unterminated identifier", ErrUnsupported)
			}
			out = append(out, tok{"qid", b.String()})
			i = j + 1
		case c == '\'':
			j := i + 1
			var b strings.Builder
			for j < len(s) {
				if s[j] == '\'' {
					if j+1 < len(s) && s[j+1] == '\'' {
						b.WriteByte('\'')
						j += 2
						continue
					}
					break
				}
				b.WriteByte(s[j])
				j++
			}
			if j >= len(s) {
				return nil, fmt.Errorf("%w: unterminated string", ErrUnsupported)
			}
			out = append(out, tok{"str", b.String()})
			i = j + 1
		case c >= '0' && c <= '9' || (c == '-' && i+1 < len(s) && s[i+1] >= '0' && s[i+1] <= '9'):
			j := i + 1
			for j < len(s) && (s[j] >= '0' && s[j] <= '9' || s[j] == '.') {
				j++
			}
			out = append(out, tok{"num", s[i:j]})
			i = j
		case c == '_' || c >= 'a' && c <= 'z' || c >= 'A' && c <= 'Z':
			j := i + 1
			for j < len(s) && (s[j] == '_' || s[j] >= 'a' && s[j] <= 'z' || s[j] >= 'A' && s[j] <= 'Z' || s[j] >= '0' && s[j] <= '9') {
				j++
			}
			out = append(out, tok{"id", s[i:j]})
			i = j
		case c == '<' || c == '>' || c == '!' || c == '=':
			j := i + 1
			if j < len(s) && (s[j] == '=' || (c == '<' && s[j] == '>')) {
				j++
			}
			out = append(out, tok{"op", s[i:j]})
			i = j
		case strings.ContainsRune("(),.*:", rune(c)):
			if c == ':' && i+1 < len(s) && s[i+1] == ':' {
				out = append(out, tok{"op", "::"})
				i += 2
				continue
			}
			out = append(out, tok{"op", string(c)})
			i++
		default:
			return nil, fmt.Errorf("%w: character %q", ErrUnsupported, c)
		}
	}
	out = append(out, tok{"eof", ""})
	return out, nil
}

// ---- parser / evaluator ----

type parser struct {
	t    []tok
	p    int
	res  Resolver
	ctes map[string]*rel
}

// rel is an evaluated relation: rows over a base table.
type rel struct {
	tab  *Table
	rows [][]any
}

func (p *parser) peek() tok { return p.t[p.p] }
func (p *parser) next() tok { t := p.t[p.p]; p.p++; return t }
func (p *parser) isKw(k string) bool {
	t := p.peek()
	return t.k == "id" && strings.EqualFold(t.v, k)
}
func (p *parser) acceptKw(k string) bool {
	if p.isKw(k) {
		p.p++
		return true
	}
	return false
}
func (p *parser) acceptOp(o string) bool {
	t := p.peek()
	if t.k == "op" && t.v == o {
		p.p++
		return true
	}
	return false
}
func (p *parser) expectOp(o string) error {
	if !p.acceptOp(o) {
		return fmt.Errorf("%w: expected %q at token %d (%v)", ErrUnsupported, o, p.p, p.peek())
	}
	return nil
}
func (p *parser) expectKw(k string) error {
	if !p.acceptKw(k) {
		return fmt.Errorf("%w: expected %s at token %d (%v)", ErrUnsupported, k, p.p, p.peek())
	}
	return nil
}

// Exec parses and evaluates q.
func Exec(q string, res Resolver) (*Result, error) {
	toks, err := lex(q)
	if err != nil {
		return nil, err
	}
	p := &parser{t: toks, res: res, ctes: map[string]*rel{}}
	if p.acceptKw("WITH") {
		for {
			nameTok := p.next()
			if nameTok.k != "id" && nameTok.k != "qid" {
				return nil, fmt.Errorf("%w: cte name", ErrUnsupported)
			}
			if err := p.expectKw("AS"); err != nil {
				return nil, err
			}
			if err := p.expectOp("("); err != nil {
				return nil, err
			}
			r, cnt, err := p.selectStmt()
			if err != nil {
				return nil, err
			}
			if cnt != nil {
				return nil, fmt.Errorf("%w: count in cte", ErrUnsupported)
			}
			if err := p.expectOp(")"); err != nil {
				return nil, err
			}
			p.ctes[nameTok.v] = r
			if !p.acceptOp(",") {
				break
			}
		}
	}
	r, cnt, err := p.selectStmt()
	if err != nil {
		return nil, err
	}
	if p.peek().k != "eof" {
		return nil, fmt.Errorf("%w: trailing tokens at %d: %v", ErrUnsupported, p.p, p.peek())
	}
	if cnt != nil {
		return &Result{Count: cnt}, nil
	}
	return &Result{Table: r.tab, RowIdx: r.rows}, nil
}

func (p *parser) selectStmt() (*rel, *int64, error) {
	if err := p.expectKw("SELECT"); err != nil {
		return nil, nil, err
	}
	isCount := false
	// projection
	switch {
	case p.acceptOp("*"):
	case p.isKw("count"):
		p.p++
		if err := p.expectOp("("); err != nil {
			return nil, nil, err
		}
		if err := p.expectOp("*"); err != nil {
			return nil, nil, err
		}
		if err := p.expectOp(")"); err != nil {
			return nil, nil, err
		}
		isCount = true
	default:
		// alias.*  (possibly followed by ", *")
		t := p.next()
		if (t.k == "id" || t.k == "qid") && p.acceptOp(".") && p.acceptOp("*") {
		} else {
			return nil, nil, fmt.Errorf("%w: projection %v", ErrUnsupported, t)
		}
	}
	for p.acceptOp(",") { // "*, *" happens when Project adds ColumnExpr("*") twice
		if !p.acceptOp("*") {
			return nil, nil, fmt.Errorf("%w: projection list", ErrUnsupported)
		}
	}
	if err := p.expectKw("FROM"); err != nil {
		return nil, nil, err
	}
	src, err := p.source()
	if err != nil {
		return nil, nil, err
	}
	rows := src.rows
	if p.acceptKw("WHERE") {
		e, err := p.orExpr(src.tab)
		if err != nil {
			return nil, nil, err
		}
		var kept [][]any
		for _, r := range rows {
			if v := e(r); v != nil && *v {
				kept = append(kept, r)
			}
		}
		rows = kept
	}
	if p.acceptKw("ORDER") {
		if err := p.expectKw("BY"); err != nil {
			return nil, nil, err
		}
		type ord struct {
			idx  int
			desc bool
		}
		var ords []ord
		for {
			ci, err := p.colRef(src.tab)
			if err != nil {
				return nil, nil, err
			}
			if src.tab.Cols[ci].Kind == KOpaque {
				return nil, nil, fmt.Errorf("%w: ORDER BY on opaque column %s", ErrUnsupported, src.tab.Cols[ci].Name)
			}
			o := ord{idx: ci}
			if p.acceptKw("DESC") {
				o.desc = true
			} else {
				p.acceptKw("ASC")
			}
			ords = append(ords, o)
			if !p.acceptOp(",") {
				break
			}
		}
		rows = append([][]any(nil), rows...)
		sort.SliceStable(rows, func(i, j int) bool {
			for _, o := range ords {
				c := cmpNullsLast(rows[i][o.idx], rows[j][o.idx])
				if c == 0 {
					continue
				}
				if o.desc {
					return c > 0
				}
				return c < 0
			}
			return false
		})
	}
	if p.acceptKw("LIMIT") {
		n, err := p.intLit()
		if err != nil {
			return nil, nil, err
		}
		defer func() {}()
		// OFFSET may follow LIMIT; apply offset first.
		off := 0
		if p.acceptKw("OFFSET") {
			off, err = p.intLit()
			if err != nil {
				return nil, nil, err
			}
		}
		if off > len(rows) {
			off = len(rows)
		}
		rows = rows[off:]
		if n < len(rows) {
			rows = rows[:n]
		}
	} else if p.acceptKw("OFFSET") {
		off, err := p.intLit()
		if err != nil {
			return nil, nil, err
		}
		if off > len(rows) {
			off = len(rows)
		}
		rows = rows[off:]
		if p.acceptKw("LIMIT") {
			n, err := p.intLit()
			if err != nil {
				return nil, nil, err
			}
			if n < len(rows) {
				rows = rows[:n]
			}
		}
	}
	if isCount {
		n := int64(len(rows))
		return nil, &n, nil
	}
	return &rel{tab: src.tab, rows: rows}, nil, nil
}

func (p *parser) intLit() (int, error) {
	t := p.next()
	if t.k != "num" {
		return 0, fmt.Errorf("%w: expected integer, got %v", ErrUnsupported, t)
	}
	n, err := strconv.Atoi(t.v)
	if err != nil {
		return 0, fmt.Errorf("%w: %v", ErrUnsupported, err)
	}
	return n, nil
}

func (p *parser) source() (*rel, error) {
	var r *rel
	switch {
	case p.acceptOp("("):
		sub, cnt, err := p.selectStmt()
		if err != nil {
			return nil, err
		}
		if cnt != nil {
			return nil, fmt.Errorf("%w: count subquery", ErrUnsupported)
		}
		if err := p.expectOp(")"); err != nil {
			return nil, err
		}
		r = sub
	default:
		t := p.next()
		if t.k != "id" && t.k != "qid" {
			return nil, fmt.Errorf("%w: source %v", ErrUnsupported, t)
		}
		if p.acceptOp(".") {
			t2 := p.next()
			tab := p.res(t.v, t2.v)
			if tab == nil {
				return nil, fmt.Errorf("%w: unknown table %s.%s", ErrUnsupported, t.v, t2.v)
			}
			r = &rel{tab: tab, rows: tab.Rows}
		} else if c, ok := p.ctes[t.v]; ok {
			r = c
		} else {
			return nil, fmt.Errorf("%w: unknown relation %s", ErrUnsupported, t.v)
		}
	}
	// optional alias
	p.acceptKw("AS")
	if t := p.peek(); (t.k == "id" || t.k == "qid") && !isClauseKw(t) {
		p.p++
	}
	return r, nil
}

func isClauseKw(t tok) bool {
	if t.k != "id" {
		return false
	}
	switch strings.ToUpper(t.v) {
	case "WHERE", "ORDER", "LIMIT", "OFFSET", "GROUP", "LEFT", "JOIN", "UNION", "HAVING":
		return true
	}
	return false
}

func (p *parser) colRef(tab *Table) (int, error) {
	t := p.next()
	if t.k != "id" && t.k != "qid" {
		return 0, fmt.Errorf("%w: column ref %v", ErrUnsupported, t)
	}
	name := t.v
	if p.acceptOp(".") {
		t2 := p.next()
		if t2.k != "id" && t2.k != "qid" {
			return 0, fmt.Errorf("%w: column ref", ErrUnsupported)
		}
		name = t2.v
	}
	i := tab.colIndex(name)
	if i < 0 {
		return 0, fmt.Errorf("%w: unknown column %q", ErrUnsupported, name)
	}
	return i, nil
}

type bexpr func(row []any) *bool

var (
	vTrue  = true
	vFalse = false
)

func b(v bool) *bool {
	if v {
		return &vTrue
	}
	return &vFalse
}

func (p *parser) orExpr(tab *Table) (bexpr, error) {
	l, err := p.andExpr(tab)
	if err != nil {
		return nil, err
	}
	for p.acceptKw("OR") {
		r, err := p.andExpr(tab)
		if err != nil {
			return nil, err
		}
		ll, rr := l, r
		l = func(row []any) *bool {
			a, c := ll(row), rr(row)
			if (a != nil && *a) || (c != nil && *c) {
				return b(true)
			}
			if a == nil || c == nil {
				return nil
			}
			return b(false)
		}
	}
	return l, nil
}

func (p *parser) andExpr(tab *Table) (bexpr, error) {
	l, err := p.notExpr(tab)
	if err != nil {
		return nil, err
	}
	for p.acceptKw("AND") {
		r, err := p.notExpr(tab)
		if err != nil {
			return nil, err
		}
		ll, rr := l, r
		l = func(row []any) *bool {
			a, c := ll(row), rr(row)
			if (a != nil && !*a) || (c != nil && !*c) {
				return b(false)
			}
			if a == nil || c == nil {
				return nil
			}
			return b(true)
		}
	}
	return l, nil
}

func (p *parser) notExpr(tab *Table) (bexpr, error) {
	if p.acceptKw("NOT") {
		e, err := p.notExpr(tab)
		if err != nil {
			return nil, err
		}
		return func(row []any) *bool {
			v := e(row)
			if v == nil {
				return nil
			}
			return b(!*v)
		}, nil
	}
	return p.primary(tab)
}

func (p *parser) primary(tab *Table) (bexpr, error) {
	if p.acceptOp("(") {
		e, err := p.orExpr(tab)
		if err != nil {
			return nil, err
		}
		if err := p.expectOp(")"); err != nil {
			return nil, err
		}
		return e, nil
	}
	if p.isKw("vp") {
		p.p++
		if err := p.expectOp("("); err != nil {
			return nil, err
		}
		k, err := p.intLit()
		if err != nil {
			return nil, err
		}
		if err := p.expectOp(")"); err != nil {
			return nil, err
		}
		if k < 0 || k >= len(tab.Preds) {
			return nil, fmt.Errorf("%w: vp(%d) out of range", ErrUnsupported, k)
		}
		f := tab.Preds[k]
		return func(row []any) *bool { return b(f(row)) }, nil
	}
	if p.peek().k == "num" && p.peek().v == "1" { // "1 = 1"
		save := p.p
		p.p++
		if p.acceptOp("=") && p.peek().k == "num" && p.peek().v == "1" {
			p.p++
			return func([]any) *bool { return b(true) }, nil
		}
		p.p = save
	}
	ci, err := p.colRef(tab)
	if err != nil {
		return nil, err
	}
	kind := tab.Cols[ci].Kind
	if p.acceptKw("IS") {
		neg := p.acceptKw("NOT")
		if err := p.expectKw("NULL"); err != nil {
			return nil, err
		}
		return func(row []any) *bool { return b((row[ci] == nil) != neg) }, nil
	}
	if p.acceptKw("IN") {
		if err := p.expectOp("("); err != nil {
			return nil, err
		}
		var lits []any
		for {
			v, err := p.literal(kind)
			if err != nil {
				return nil, err
			}
			lits = append(lits, v)
			if !p.acceptOp(",") {
				break
			}
		}
		if err := p.expectOp(")"); err != nil {
			return nil, err
		}
		return func(row []any) *bool {
			if row[ci] == nil {
				return nil
			}
			for _, l := range lits {
				if l != nil && cmp(row[ci], l) == 0 {
					return b(true)
				}
			}
			return b(false)
		}, nil
	}
	opT := p.next()
	if opT.k != "op" && !(opT.k == "id" && strings.EqualFold(opT.v, "like")) {
		return nil, fmt.Errorf("%w: operator %v", ErrUnsupported, opT)
	}
	op := strings.ToLower(opT.v)
	lit, err := p.literal(kind)
	if err != nil {
		return nil, err
	}
	if kind == KOpaque {
		return nil, fmt.Errorf("%w: comparison on opaque column %s", ErrUnsupported, tab.Cols[ci].Name)
	}
	return func(row []any) *bool {
		if row[ci] == nil || lit == nil {
			return nil
		}
		if op == "like" {
			return b(like(row[ci].(string), lit.(string)))
		}
		c := cmp(row[ci], lit)
		switch op {
		case "=":
			return b(c == 0)
		case "<>", "!=":
			return b(c != 0)
		case "<":
			return b(c < 0)
		case "<=":
			return b(c <= 0)
		case ">":
			return b(c > 0)
		case ">=":
			return b(c >= 0)
		}
		return nil
	}, nil
}

var timeLayouts = []string{
	"2006-01-02 15:04:05.999999999-07:00",
	"2006-01-02 15:04:05.999999999Z07:00",
	"2006-01-02 15:04:05.999999999",
	time.RFC3339Nano,
	"2006-01-02T15:04:05.999999999",
	"2006-01-02",
}

func ParseTime(s string) (time.Time, bool) {
	for _, l := range timeLayouts {
		if t, err := time.Parse(l, s); err == nil {
			return t.UTC(), true
		}
	}
	return time.Time{}, false
}

func (p *parser) literal(kind Kind) (any, error) {
	t := p.next()
	var raw string
	switch t.k {
	case "num", "str":
		raw = t.v
	case "id":
		switch strings.ToUpper(t.v) {
		case "NULL":
			return nil, nil
		case "TRUE":
			return true, nil
		case "FALSE":
			return false, nil
		}
		return nil, fmt.Errorf("%w: literal %v", ErrUnsupported, t)
	default:
		return nil, fmt.Errorf("%w: literal %v", ErrUnsupported, t)
	}
	// optional cast  ::type
	if p.acceptOp("::") {
		p.next()
	}
	switch kind {
	case KNum:
		n, ok := new(big.Int).SetString(strings.TrimSpace(raw), 10)
		if !ok {
			return nil, fmt.Errorf("microsql: invalid input syntax for type numeric: %q", raw)
		}
		return n, nil
	case KTime:
		tt, ok := ParseTime(raw)
		if !ok {
			return nil, fmt.Errorf("microsql: invalid input syntax for type timestamp: %q", raw)
		}
		return tt, nil
	case KBool:
		return strings.EqualFold(raw, "true") || raw == "t", nil
	default:
		return raw, nil
	}
}

func cmp(a, c any) int {
	switch x := a.(type) {
	case *big.Int:
		return x.Cmp(c.(*big.Int))
	case string:
		return strings.Compare(x, c.(string))
	case time.Time:
		y := c.(time.Time)
		if x.Before(y) {
			return -1
		}
		if x.After(y) {
			return 1
		}
		return 0
	case bool:
		y := c.(bool)
		if x == y {
			return 0
		}
		if !x {
			return -1
		}
		return 1
	}
	// values of a kind this evaluator does not order: treated as equal (callers reject opaque columns up front)
	return 0
}

// NULLs sort as larger than any value (Postgres default: last in ASC, first in DESC).
func cmpNullsLast(a, c any) int {
	if a == nil && c == nil {
		return 0
	}
	if a == nil {
		return 1
	}
	if c == nil {
		return -1
	}
	return cmp(a, c)
}

func like(s, pat string) bool {
	// % and _ wildcards
	var rec func(si, pi int) bool
	rec = func(si, pi int) bool {
		for pi < len(pat) {
			switch pat[pi] {
			case '%':
				for k := si; k <= len(s); k++ {
					if rec(k, pi+1) {
						return true
					}
				}
				return false
			case '_':
				if si >= len(s) {
					return false
				}
				si++
				pi++
			default:
				if si >= len(s) || s[si] != pat[pi] {
					return false
				}
				si++
				pi++
			}
		}
		return si == len(s)
	}
	return rec(0, 0)
}
