// Package core is the runner shared by all checks: case iteration with
// per-case PRNGs, evidence collection, known-findings matching, replay files
// and the three-valued verdict (0 held / 1 violated / 2 inconclusive).
package core

import (
	"crypto/sha256"
	"encoding/binary"
	"encoding/hex"
	"encoding/json"
	"fmt"
	"math/rand"
	"os"
	"path/filepath"
	"runtime"
	"runtime/debug"
	"sort"
	"strings"
	"sync"
	"time"
)

type Check struct {
	ID          string
	Level       string // exploration | fault_enumeration
	Rule        string
	Assumptions []string
	Run         func(r *Run)
}

var registry = map[string]*Check{}

func Register(c *Check) {
	if _, dup := registry[c.ID]; dup {
		panic("duplicate check " + c.ID)
	}
	registry[c.ID] = c
}

func Lookup(id string) *Check { return registry[id] }

func IDs() []string {
	var ids []string
	for id := range registry {
		ids = append(ids, id)
	}
	sort.Strings(ids)
	return ids
}

type violation struct {
	Signature string `json:"signature"`
	Case      int    `json:"case"`
	Detail    any    `json:"detail"`
	Replay    string `json:"replay"`
}

type Run struct {
	Check *Check
	Tier  string
	Seed  int64
	// Only >= 0 restricts ForEach loops to that case index (replay mode).
	Only     int
	OnlyLoop string
	RaceMode bool // binary built with -race; checks run their free-running workloads
	VerifDir string

	mu           sync.Mutex
	evaluations  int
	distinct     map[[16]byte]struct{}
	samples      []any
	sampleCap    int
	counters     map[string]int64
	sets         map[string]map[string]struct{}
	floors       map[string]int64
	violations   []violation
	known        map[string]string // signature -> what
	knownPrinted map[string]bool
	inconclusive []string
	exhaustive   *bool
	extra        map[string]any
	start        time.Time
}

func (r *Run) Quick() bool { return r.Tier != "thorough" }

// N picks a case count by tier.
func (r *Run) N(quick, thorough int) int {
	if r.Quick() {
		return quick
	}
	return thorough
}

// Case is one generated case handed to a ForEach body.
type Case struct {
	R     *Run
	Loop  string
	Index int
	Rng   *rand.Rand
}

func caseSeed(seed int64, id, loop string, i int) int64 {
	h := sha256.New()
	var b [8]byte
	binary.LittleEndian.PutUint64(b[:], uint64(seed))
	h.Write(b[:])
	h.Write([]byte(id))
	h.Write([]byte{0})
	h.Write([]byte(loop))
	binary.LittleEndian.PutUint64(b[:], uint64(i))
	h.Write(b[:])
	s := h.Sum(nil)
	return int64(binary.LittleEndian.Uint64(s[:8]) & 0x7fffffffffffffff)
}

// ForEach runs n cases named loop, each with its own PRNG derived from
// (seed, check id, loop, index), on `workers` goroutines (0 = NumCPU). A panic
// in a body is reported as a harness failure (inconclusive), never swallowed:
// bodies that expect panics of the code under test must recover themselves.
func (r *Run) ForEach(loop string, n, workers int, body func(c *Case)) {
	if workers <= 0 {
		workers = runtime.NumCPU()
	}
	if r.Only >= 0 {
		if r.OnlyLoop != "" && r.OnlyLoop != loop {
			return
		}
		workers = 1
	}
	idx := make(chan int)
	var wg sync.WaitGroup
	for w := 0; w < workers; w++ {
		wg.Add(1)
		go func() {
			defer wg.Done()
			for i := range idx {
				func() {
					defer func() {
						if p := recover(); p != nil {
							r.Inconclusive(fmt.Sprintf("harness panic in %s[%d]: %v\n%s", loop, i, p, debug.Stack()))
						}
					}()
					body(&Case{R: r, Loop: loop, Index: i, Rng: rand.New(rand.NewSource(caseSeed(r.Seed, r.Check.ID, loop, i)))})
				}()
			}
		}()
	}
	for i := 0; i < n; i++ {
		if r.Only >= 0 && i != r.Only {
			continue
		}
		idx <- i
	}
	close(idx)
	wg.Wait()
}

// Eval counts one evaluated case. sig identifies the case's *shape*; it is
// hashed into the distinct set only when nontrivial.
func (r *Run) Eval(sig string, nontrivial bool) {
	r.mu.Lock()
	defer r.mu.Unlock()
	r.evaluations++
	if nontrivial {
		h := sha256.Sum256([]byte(sig))
		var k [16]byte
		copy(k[:], h[:16])
		r.distinct[k] = struct{}{}
	}
}

// Sample keeps up to sampleCap written-out cases.
func (r *Run) Sample(v any) {
	r.mu.Lock()
	defer r.mu.Unlock()
	if len(r.samples) < r.sampleCap {
		r.samples = append(r.samples, v)
	}
}

func (r *Run) Count(key string, n int64) {
	r.mu.Lock()
	defer r.mu.Unlock()
	r.counters[key] += n
}

// Seen records a member of a named set; the set's size is reported in coverage.
func (r *Run) Seen(set, member string) {
	r.mu.Lock()
	defer r.mu.Unlock()
	m := r.sets[set]
	if m == nil {
		m = map[string]struct{}{}
		r.sets[set] = m
	}
	m[member] = struct{}{}
}

// Floor: at the end of the run counter (or set size) key must be >= min,
// otherwise the run is inconclusive ("a monitor that observed nothing").
func (r *Run) Floor(key string, min int64) {
	r.mu.Lock()
	defer r.mu.Unlock()
	r.floors[key] = min
}

func (r *Run) SetExhaustive(b bool) { r.mu.Lock(); r.exhaustive = &b; r.mu.Unlock() }
func (r *Run) Extra(k string, v any) { r.mu.Lock(); r.extra[k] = v; r.mu.Unlock() }

func (r *Run) Inconclusive(reason string) {
	r.mu.Lock()
	defer r.mu.Unlock()
	r.inconclusive = append(r.inconclusive, reason)
}

// Violation reports a refuting observation. sig must identify the failing
// input / call site / schedule class specifically: it is what
// known_findings.json is matched against.
func (c *Case) Violation(sig string, detail any) { c.R.violation(sig, c.Loop, c.Index, detail) }

func (r *Run) Violation(sig string, detail any) { r.violation(sig, "", -1, detail) }

func (r *Run) violation(sig, loop string, idx int, detail any) {
	r.mu.Lock()
	defer r.mu.Unlock()
	if what, ok := r.known[sig]; ok {
		if !r.knownPrinted[sig] {
			r.knownPrinted[sig] = true
			fmt.Printf("KNOWN-FINDING: property=%s %s [%s]\n", r.Check.ID, what, sig)
		}
		r.counters["known_finding_hits"]++
		return
	}
	for _, v := range r.violations {
		if v.Signature == sig {
			r.counters["duplicate_violation_reports"]++
			return
		}
	}
	h := sha256.Sum256([]byte(sig))
	name := fmt.Sprintf("%s-%s.json", r.Check.ID, hex.EncodeToString(h[:6]))
	path := filepath.Join(r.VerifDir, "replays", name)
	rep := map[string]any{
		"property": r.Check.ID, "seed": r.Seed, "tier": r.Tier, "loop": loop, "case": idx,
		"signature": sig, "detail": detail, "race_mode": r.RaceMode,
	}
	_ = os.MkdirAll(filepath.Dir(path), 0o755)
	b, err := json.MarshalIndent(rep, "", " ")
	if err != nil {
		b, _ = json.MarshalIndent(map[string]any{"property": r.Check.ID, "seed": r.Seed, "tier": r.Tier, "loop": loop, "case": idx, "signature": sig, "detail": fmt.Sprintf("%+v", detail)}, "", " ")
	}
	_ = os.WriteFile(path, b, 0o644)
	r.violations = append(r.violations, violation{Signature: sig, Case: idx, Detail: detail, Replay: path})
	fmt.Printf("VIOLATION property=%s replay=%s\n", r.Check.ID, path)
	fmt.Printf("  signature: %s\n", sig)
}

func (r *Run) NViolations() int { r.mu.Lock(); defer r.mu.Unlock(); return len(r.violations) }

type knownFile struct {
	Findings []struct {
		Property  string `json:"property"`
		Signature string `json:"signature"`
		What      string `json:"what"`
	} `json:"findings"`
}

func loadKnown(verifDir, id string) map[string]string {
	m := map[string]string{}
	b, err := os.ReadFile(filepath.Join(verifDir, "known_findings.json"))
	if err != nil {
		return m
	}
	var kf knownFile
	if json.Unmarshal(b, &kf) != nil {
		return m
	}
	for _, f := range kf.Findings {
		if f.Property == id {
			m[f.Signature] = f.What
		}
	}
	return m
}

func NewRun(c *Check, tier string, seed int64, verifDir string, race bool) *Run {
	return &Run{
		Check: c, Tier: tier, Seed: seed, Only: -1, VerifDir: verifDir, RaceMode: race,
		distinct: map[[16]byte]struct{}{}, sampleCap: 6, counters: map[string]int64{},
		sets: map[string]map[string]struct{}{}, floors: map[string]int64{},
		known: loadKnown(verifDir, c.ID), knownPrinted: map[string]bool{}, extra: map[string]any{},
		start: time.Now(),
	}
}

// Finish writes the evidence file (unless replaying or race-only part) and returns the exit code.
func (r *Run) Finish(writeEvidence bool) int {
	r.mu.Lock()
	defer r.mu.Unlock()
	for k, min := range r.floors {
		got := r.counters[k]
		if s, ok := r.sets[k]; ok {
			got = int64(len(s))
		}
		if k == "distinct_nontrivial" {
			got = int64(len(r.distinct))
		}
		if k == "evaluations" {
			got = int64(r.evaluations)
		}
		if got < min && r.Only < 0 {
			r.inconclusive = append(r.inconclusive, fmt.Sprintf("floor not reached: %s=%d < %d", k, got, min))
		}
	}
	cov := map[string]any{
		"evaluations":         r.evaluations,
		"distinct_nontrivial": len(r.distinct),
		"rule":                r.Check.Rule,
		"samples":             r.samples,
	}
	if r.exhaustive != nil {
		cov["exhaustive"] = *r.exhaustive
	}
	for k, v := range r.counters {
		cov[k] = v
	}
	for k, s := range r.sets {
		cov["distinct_"+k] = len(s)
		if len(s) <= 40 {
			var ms []string
			for m := range s {
				ms = append(ms, m)
			}
			sort.Strings(ms)
			cov[k+"_seen"] = ms
		}
	}
	for k, v := range r.extra {
		cov[k] = v
	}
	if len(r.samples) == 0 {
		cov["samples"] = []any{}
	}
	ev := map[string]any{
		"property_id": r.Check.ID,
		"tier":        r.Tier,
		"seed":        r.Seed,
		"level":       r.Check.Level,
		"coverage":    cov,
		"assumptions": append([]string{}, r.Check.Assumptions...),
		"wall_s":      time.Since(r.start).Seconds(),
		"violations":  len(r.violations),
	}
	if len(r.inconclusive) > 0 {
		ev["inconclusive"] = r.inconclusive
	}
	if r.RaceMode {
		ev["race_detector_build"] = true
	}
	if writeEvidence {
		b, err := json.MarshalIndent(ev, "", " ")
		if err != nil {
			fmt.Printf("INCONCLUSIVE property=%s reason=evidence not serialisable: %v\n", r.Check.ID, err)
			return 2
		}
		p := filepath.Join(r.VerifDir, "evidence", r.Check.ID+".json")
		if r.RaceMode {
			p = filepath.Join(r.VerifDir, "evidence", "parts", r.Check.ID+".race.json")
		}
		_ = os.MkdirAll(filepath.Dir(p), 0o755)
		if err := os.WriteFile(p, b, 0o644); err != nil {
			fmt.Printf("INCONCLUSIVE property=%s reason=cannot write evidence: %v\n", r.Check.ID, err)
			return 2
		}
	}
	fmt.Printf("%s tier=%s seed=%d race=%v evaluations=%d distinct_nontrivial=%d violations=%d wall=%.1fs\n",
		r.Check.ID, r.Tier, r.Seed, r.RaceMode, r.evaluations, len(r.distinct), len(r.violations), time.Since(r.start).Seconds())
	var keys []string
	for k := range r.counters {
		keys = append(keys, k)
	}
	sort.Strings(keys)
	var parts []string
	for _, k := range keys {
		parts = append(parts, fmt.Sprintf("%s=%d", k, r.counters[k]))
	}
	for k, s := range r.sets {
		parts = append(parts, fmt.Sprintf("distinct_%s=%d", k, len(s)))
	}
	if len(parts) > 0 {
		fmt.Println("  " + strings.Join(parts, " "))
	}
	if len(r.violations) > 0 {
		return 1
	}
	if len(r.inconclusive) > 0 {
		for _, s := range r.inconclusive {
			if len(s) > 2000 {
				s = s[:2000]
			}
			fmt.Printf("INCONCLUSIVE property=%s reason=%s\n", r.Check.ID, s)
		}
		return 2
	}
	return 0
}
