// Package refledger is an independent sequential reference ledger: a fold of
// committed operations into volumes, transactions, accounts and metadata. It
// shares no code with memstore and none with /repo's controller.
package refledger

import (
	"fmt"
	"math/big"
	"sort"
	"time"
)

type Posting struct {
	Source, Destination, Asset string
	Amount                     *big.Int
}

type Vol struct{ In, Out *big.Int }

func (v Vol) Balance() *big.Int { return new(big.Int).Sub(v.In, v.Out) }

type Tx struct {
	ID         uint64
	Postings   []Posting
	Metadata   map[string]string
	Timestamp  time.Time
	Reference  string
	Reverted   bool
	RevertedAt time.Time
	// PostCommit: volumes of each touched account/asset right after this tx (commit order)
	PostCommit map[[2]string]Vol
}

type Account struct {
	Address    string
	Metadata   map[string]string
	FirstUsage time.Time
}

type Ledger struct {
	Vols     map[[2]string]*Vol // (account, asset)
	Txs      map[uint64]*Tx
	Order    []uint64 // commit order
	Accounts map[string]*Account
	Refs     map[string]uint64
	Logs     int
}

func New() *Ledger {
	return &Ledger{Vols: map[[2]string]*Vol{}, Txs: map[uint64]*Tx{}, Accounts: map[string]*Account{}, Refs: map[string]uint64{}}
}

func (l *Ledger) vol(acc, asset string) *Vol {
	k := [2]string{acc, asset}
	if l.Vols[k] == nil {
		l.Vols[k] = &Vol{In: new(big.Int), Out: new(big.Int)}
	}
	return l.Vols[k]
}

func (l *Ledger) Balance(acc, asset string) *big.Int {
	if v := l.Vols[[2]string{acc, asset}]; v != nil {
		return v.Balance()
	}
	return new(big.Int)
}

func (l *Ledger) touch(addr string, at time.Time, defaults, md map[string]string) {
	a := l.Accounts[addr]
	if a == nil {
		a = &Account{Address: addr, Metadata: map[string]string{}, FirstUsage: at}
		for k, v := range defaults {
			a.Metadata[k] = v
		}
		l.Accounts[addr] = a
	} else if at.Before(a.FirstUsage) {
		a.FirstUsage = at
	}
	for k, v := range md {
		a.Metadata[k] = v
	}
}

// CommitTx applies a committed transaction. accountMeta: metadata set on
// accounts by the transaction; defaults: chart default metadata per account
// (applied only when the account is first created).
func (l *Ledger) CommitTx(id uint64, postings []Posting, md map[string]string, ts time.Time, ref string,
	accountMeta map[string]map[string]string, defaults map[string]map[string]string) *Tx {
	tx := &Tx{ID: id, Metadata: map[string]string{}, Timestamp: ts, Reference: ref, PostCommit: map[[2]string]Vol{}}
	for k, v := range md {
		tx.Metadata[k] = v
	}
	for _, p := range postings {
		tx.Postings = append(tx.Postings, Posting{p.Source, p.Destination, p.Asset, new(big.Int).Set(p.Amount)})
		s, d := l.vol(p.Source, p.Asset), l.vol(p.Destination, p.Asset)
		s.Out.Add(s.Out, p.Amount)
		d = l.vol(p.Destination, p.Asset)
		d.In.Add(d.In, p.Amount)
	}
	for _, p := range postings {
		for _, a := range []string{p.Source, p.Destination} {
			v := l.vol(a, p.Asset)
			tx.PostCommit[[2]string{a, p.Asset}] = Vol{In: new(big.Int).Set(v.In), Out: new(big.Int).Set(v.Out)}
		}
	}
	involved := map[string]bool{}
	for _, p := range postings {
		involved[p.Source], involved[p.Destination] = true, true
	}
	for a := range accountMeta {
		involved[a] = true
	}
	for a := range involved {
		l.touch(a, ts, defaults[a], accountMeta[a])
	}
	l.Txs[id] = tx
	l.Order = append(l.Order, id)
	if ref != "" {
		l.Refs[ref] = id
	}
	l.Logs++
	return tx
}

// Revert marks id reverted (the revert transaction itself is committed through CommitTx by the caller,
// which also counts the single log).
func (l *Ledger) MarkReverted(id uint64, at time.Time) {
	if t := l.Txs[id]; t != nil {
		t.Reverted = true
		t.RevertedAt = at
	}
}

func (l *Ledger) SaveTxMeta(id uint64, md map[string]string) {
	if t := l.Txs[id]; t != nil {
		for k, v := range md {
			t.Metadata[k] = v
		}
	}
	l.Logs++
}

func (l *Ledger) DeleteTxMeta(id uint64, key string) {
	if t := l.Txs[id]; t != nil {
		delete(t.Metadata, key)
	}
	l.Logs++
}

func (l *Ledger) SaveAccountMeta(addr string, md map[string]string, at time.Time, defaults map[string]string) {
	if a := l.Accounts[addr]; a != nil {
		for k, v := range md {
			a.Metadata[k] = v
		}
		if !at.IsZero() && at.Before(a.FirstUsage) { // a metadata write is a usage event too
			a.FirstUsage = at
		}
	} else {
		l.touch(addr, at, defaults, md)
	}
	l.Logs++
}

func (l *Ledger) DeleteAccountMeta(addr, key string) {
	if a := l.Accounts[addr]; a != nil {
		delete(a.Metadata, key)
	}
	l.Logs++
}

// ConservationViolations lists assets whose total input != total output.
func (l *Ledger) SortedVolKeys() [][2]string {
	ks := make([][2]string, 0, len(l.Vols))
	for k := range l.Vols {
		ks = append(ks, k)
	}
	sort.Slice(ks, func(i, j int) bool {
		if ks[i][0] != ks[j][0] {
			return ks[i][0] < ks[j][0]
		}
		return ks[i][1] < ks[j][1]
	})
	return ks
}

func (l *Ledger) String() string {
	s := ""
	for _, k := range l.SortedVolKeys() {
		v := l.Vols[k]
		s += fmt.Sprintf("%s/%s in=%s out=%s\n", k[0], k[1], v.In, v.Out)
	}
	return s
}
