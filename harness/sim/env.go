// Package sim wires the REAL controller stack of /repo (system controller ->
// state tracker -> events -> traces -> cache -> too-many-clients -> default
// controller) over memstore, the way production wires it over Postgres.
package sim

import (
	"context"
	"fmt"
	"io"
	"sync"

	logging "github.com/formancehq/go-libs/v5/pkg/observe/log"
	"github.com/formancehq/go-libs/v5/pkg/types/metadata"

	ledger "github.com/formancehq/ledger/internal"
	ledgercontroller "github.com/formancehq/ledger/internal/controller/ledger"
	systemcontroller "github.com/formancehq/ledger/internal/controller/system"
	"github.com/formancehq/ledger/pkg/features"

	"github.com/formancehq/ledger/verifharness/memstore"
)

// ListenerEvent is one call of the bus listener.
type ListenerEvent struct {
	Kind   string // COMMITTED_TRANSACTIONS, SAVED_METADATA, REVERTED_TRANSACTION, DELETED_METADATA, INSERTED_SCHEMA
	Ledger string
	TxID   uint64
	Target string
	Key    string
}

// RecListener records listener calls, also into the cluster's total event order.
type RecListener struct {
	C      *memstore.Cluster
	mu     sync.Mutex
	Events []ListenerEvent
}

func (l *RecListener) add(ctx context.Context, e ListenerEvent) {
	l.mu.Lock()
	l.Events = append(l.Events, e)
	l.mu.Unlock()
	if l.C != nil {
		l.C.Emit(ctx, "listener", e.Kind, e.Ledger, fmt.Sprintf("tx=%d target=%s key=%s", e.TxID, e.Target, e.Key))
	}
}

func (l *RecListener) Snapshot() []ListenerEvent {
	l.mu.Lock()
	defer l.mu.Unlock()
	return append([]ListenerEvent(nil), l.Events...)
}

func (l *RecListener) Len() int { l.mu.Lock(); defer l.mu.Unlock(); return len(l.Events) }

func (l *RecListener) CommittedTransactions(ctx context.Context, name string, res ledger.Transaction, _ ledger.AccountMetadata) {
	var id uint64
	if res.ID != nil {
		id = *res.ID
	}
	l.add(ctx, ListenerEvent{Kind: "COMMITTED_TRANSACTIONS", Ledger: name, TxID: id})
}
func (l *RecListener) SavedMetadata(ctx context.Context, name string, targetType, id string, _ metadata.Metadata) {
	l.add(ctx, ListenerEvent{Kind: "SAVED_METADATA", Ledger: name, Target: targetType + ":" + id})
}
func (l *RecListener) RevertedTransaction(ctx context.Context, name string, reverted, revert ledger.Transaction) {
	var id uint64
	if revert.ID != nil {
		id = *revert.ID
	}
	l.add(ctx, ListenerEvent{Kind: "REVERTED_TRANSACTION", Ledger: name, TxID: id, Target: fmt.Sprint(*reverted.ID)})
}
func (l *RecListener) DeletedMetadata(ctx context.Context, name string, targetType string, targetID any, key string) {
	l.add(ctx, ListenerEvent{Kind: "DELETED_METADATA", Ledger: name, Target: fmt.Sprintf("%s:%v", targetType, targetID), Key: key})
}
func (l *RecListener) InsertedSchema(ctx context.Context, name string, data ledger.Schema) {
	l.add(ctx, ListenerEvent{Kind: "INSERTED_SCHEMA", Ledger: name, Target: data.Version})
}

var _ ledgercontroller.Listener = (*RecListener)(nil)

type Env struct {
	C        *memstore.Cluster
	Sys      *systemcontroller.DefaultController
	Listener *RecListener
	Ctx      context.Context
	routerHolder
}

type Options struct {
	Strict      bool // schema enforcement strict
	Interpreter bool // default runtime = interpreter
	NoListener  bool
}

// Quiet returns a context whose logger discards everything.
func Quiet(ctx context.Context) context.Context {
	return logging.ContextWithLogger(ctx, logging.NewDefaultLogger(io.Discard, false, false, false))
}

func NewEnv(o Options) *Env {
	c := memstore.NewCluster()
	l := &RecListener{C: c}
	var machineParser ledgercontroller.NumscriptParser = ledgercontroller.NewDefaultNumscriptParser()
	var interpreterParser ledgercontroller.NumscriptParser = ledgercontroller.NewInterpreterNumscriptParser(nil)
	parser := machineParser
	if o.Interpreter {
		parser = interpreterParser
	}
	mode := ledgercontroller.SchemaEnforcementAudit
	if o.Strict {
		mode = ledgercontroller.SchemaEnforcementStrict
	}
	var lst ledgercontroller.Listener = l
	if o.NoListener {
		lst = nil
	}
	sys := systemcontroller.NewDefaultController(c.Driver(), lst, nil,
		systemcontroller.WithParser(parser, machineParser, interpreterParser),
		systemcontroller.WithEnableFeatures(true),
		systemcontroller.WithSchemaEnforcementMode(mode),
	)
	return &Env{C: c, Sys: sys, Listener: l, Ctx: Quiet(context.Background())}
}

func (e *Env) Close() { e.C.Close() }

// CreateLedger creates a ledger through the real system controller.
func (e *Env) CreateLedger(name, bucket string, fs features.FeatureSet) error {
	cfg := ledger.Configuration{Bucket: bucket, Features: fs}
	return e.Sys.CreateLedger(e.Ctx, name, cfg)
}

// Ctrl returns a FRESH ledger controller, as common.LedgerMiddleware does per request.
func (e *Env) Ctrl(name string) ledgercontroller.Controller {
	c, err := e.Sys.GetLedgerController(e.Ctx, name)
	if err != nil {
		panic(fmt.Errorf("GetLedgerController(%s): %w", name, err))
	}
	return c
}
