package sim

import (
	"encoding/json"
	"os"
	"testing"
)

// TestReplayHistory replays the history of a replay file ($REPLAY) and prints,
// per step, the outcome and the watched account ($WATCH) in store and reference.
func TestReplayHistory(t *testing.T) {
	f := os.Getenv("REPLAY")
	if f == "" {
		t.Skip()
	}
	b, _ := os.ReadFile(f)
	var rep struct {
		Detail struct {
			History  []Op   `json:"history"`
			Features string `json:"features"`
		} `json:"detail"`
	}
	if err := json.Unmarshal(b, &rep); err != nil {
		t.Fatal(err)
	}
	e := NewEnv(Options{})
	defer e.Close()
	_ = e.CreateLedger("l1", "_default", nil)
	m := NewMirror(e, "l1")
	w := os.Getenv("WATCH")
	for i, op := range rep.Detail.History {
		nf := len(m.Findings)
		out := m.Step(op)
		js, _ := json.Marshal(op)
		if len(js) > 200 {
			js = js[:200]
		}
		t.Logf("%d %s -> %s hit=%v", i, js, out.Class, out.Hit)
		if out.Err != nil {
			t.Logf("   err=%v", out.Err)
		}
		if w != "" {
			snap := e.C.Snapshot("l1")
			for _, a := range snap.Accounts {
				if a.Address == w {
					t.Logf("   store %s firstUsage=%s", w, a.FirstUsage)
				}
			}
			if ra := m.Ref.Accounts[w]; ra != nil {
				t.Logf("   ref   %s firstUsage=%s", w, ra.FirstUsage.Format("2006-01-02T15:04:05.000000Z"))
			}
		}
		for _, fd := range m.Findings[nf:] {
			t.Logf("   FINDING %s", fd.Sig)
		}
	}
}
