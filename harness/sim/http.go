package sim

import (
	"bytes"
	"context"
	"io"
	"net/http"
	"net/http/httptest"
	"sync"

	"github.com/go-chi/chi/v5"

	"github.com/formancehq/go-libs/v5/pkg/authn/jwt"

	"github.com/formancehq/ledger/internal/api"
	"github.com/formancehq/ledger/internal/api/bulking"
)

// Router builds the REAL v1+v2 HTTP router over this env's system controller,
// wired as internal/api/module.go does (no auth, no audit publisher).
func (e *Env) Router() chi.Router {
	e.routerOnce.Do(func() {
		e.router = api.NewRouter(e.Sys, jwt.NewNoAuth(), nil, "verif", false,
			api.WithBulkerFactory(bulking.NewDefaultBulkerFactory(bulking.WithParallelism(4))),
			api.WithExporters(false),
		)
	})
	return e.router
}

type routerHolder struct {
	routerOnce sync.Once
	router     chi.Router
}

// Resp is an HTTP response.
type Resp struct {
	Status int
	Header http.Header
	Body   []byte
}

// Do performs one in-process HTTP request against the real router.
func (e *Env) Do(method, path string, body []byte, headers map[string]string) *Resp {
	return e.DoCtx(context.Background(), method, path, body, headers)
}

// DoCtx is Do with a base context (carrying the logical client id in controlled mode).
func (e *Env) DoCtx(base context.Context, method, path string, body []byte, headers map[string]string) *Resp {
	var rd io.Reader
	if body != nil {
		rd = bytes.NewReader(body)
	}
	req := httptest.NewRequest(method, path, rd)
	req = req.WithContext(Quiet(base))
	if body != nil && headers["Content-Type"] == "" {
		req.Header.Set("Content-Type", "application/json")
	}
	for k, v := range headers {
		req.Header.Set(k, v)
	}
	rec := httptest.NewRecorder()
	e.Router().ServeHTTP(rec, req)
	return &Resp{Status: rec.Code, Header: rec.Header(), Body: rec.Body.Bytes()}
}
