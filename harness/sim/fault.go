package sim

import (
	"context"
	"errors"
	"fmt"
	"sync"

	"github.com/formancehq/go-libs/v5/pkg/storage/postgres"
)

// FaultPlan fails the N-th store call (1-based, counted over all sites) with Err.
// N == -1: fail the next top-level COMMIT instead.
type FaultPlan struct {
	mu      sync.Mutex
	N       int
	Kind    string
	// CommitN > 0 additionally fails the CommitN-th top-level COMMIT (two-fault plans:
	// e.g. a deadlock that sends the operation to its retry path, then a failing commit there)
	CommitN     int
	CommitFired bool
	calls   int
	Sites   []string // sites seen (dry pass)
	Fired   bool
	FiredAt string
}

var FaultKinds = []string{"driver", "canceled", "deadlock", "serialization", "too-many-clients", "commit-failure", "rollback-failure"}

func faultErr(kind, site string) error {
	switch kind {
	case "driver":
		return fmt.Errorf("driver: bad connection (injected at %s)", site)
	case "canceled":
		return fmt.Errorf("%w (injected at %s)", context.Canceled, site)
	case "deadlock":
		return fmt.Errorf("%w (injected at %s)", postgres.ErrDeadlockDetected, site)
	case "serialization":
		return fmt.Errorf("%w (injected at %s)", postgres.ErrSerialization, site)
	case "too-many-clients":
		return postgres.ResolveError(pgTooMany(site))
	}
	return errors.New("injected " + kind + " at " + site)
}

// Install plugs the plan into the env's cluster. Returns an uninstall func.
func (p *FaultPlan) Install(e *Env) func() {
	prevHook, prevCommit := e.C.Hook, e.C.CommitFault
	e.C.Hook = func(ctx context.Context, site string) error {
		p.mu.Lock()
		defer p.mu.Unlock()
		p.calls++
		p.Sites = append(p.Sites, site)
		if p.Kind == "rollback-failure" {
			if site == "Rollback" && !p.Fired && p.N > 0 {
				p.N--
				if p.N == 0 {
					p.Fired, p.FiredAt = true, site
					return fmt.Errorf("driver: bad connection (injected at Rollback)")
				}
			}
			return nil
		}
		if site == "Rollback" {
			return nil
		}
		if p.Kind != "commit-failure" && p.N > 0 && p.calls == p.N && !p.Fired {
			p.Fired, p.FiredAt = true, site
			return faultErr(p.Kind, site)
		}
		return nil
	}
	e.C.CommitFault = func(ctx context.Context) error {
		p.mu.Lock()
		defer p.mu.Unlock()
		if p.Kind == "commit-failure" && !p.Fired && p.N > 0 {
			p.N--
			if p.N == 0 {
				p.Fired, p.FiredAt = true, "COMMIT"
				return errors.New("driver: bad connection (injected at COMMIT)")
			}
		}
		if p.CommitN > 0 && !p.CommitFired {
			p.CommitN--
			if p.CommitN == 0 {
				p.CommitFired = true
				p.FiredAt += "+COMMIT"
				return errors.New("driver: bad connection (injected at COMMIT)")
			}
		}
		return nil
	}
	return func() { e.C.Hook, e.C.CommitFault = prevHook, prevCommit }
}

func (p *FaultPlan) Calls() int { p.mu.Lock(); defer p.mu.Unlock(); return p.calls }
