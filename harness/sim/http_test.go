package sim

import "testing"

func TestHTTPSmoke(t *testing.T) {
	e := NewEnv(Options{})
	defer e.Close()
	r := e.Do("POST", "/v2/l1", []byte(`{}`), nil)
	t.Logf("create ledger: %d %s", r.Status, r.Body)
	r = e.Do("POST", "/v2/l1/transactions", []byte(`{"postings":[{"source":"world","destination":"bank","asset":"USD","amount":100}]}`), nil)
	t.Logf("create tx: %d %s", r.Status, r.Body)
	r = e.Do("GET", "/v2/l1/transactions?pageSize=1", nil, nil)
	t.Logf("list tx: %d %s", r.Status, r.Body)
	r = e.Do("GET", "/v2/l1/accounts/bank?expand=volumes", nil, nil)
	t.Logf("account: %d %s", r.Status, r.Body)
	r = e.Do("POST", "/l1/transactions", []byte(`{"postings":[{"source":"world","destination":"bank","asset":"USD","amount":100}]}`), nil)
	t.Logf("v1 create tx: %d %s", r.Status, r.Body)
	r = e.Do("POST", "/v2/l1/_bulk", []byte(`[{"action":"CREATE_TRANSACTION","data":{"postings":[{"source":"world","destination":"bank","asset":"USD","amount":1}]}}]`), nil)
	t.Logf("bulk: %d %s", r.Status, r.Body)
	r = e.Do("POST", "/v2/l1/logs/export", nil, nil)
	t.Logf("export: %d %s", r.Status, r.Body)
	r = e.Do("GET", "/v2/l1/logs", []byte(`{"$in":{"type":["NEW_TRANSACTION"]}}`), nil)
	t.Logf("logs $in: %d %s", r.Status, r.Body)
}
