package sim

import (
	"context"
	"errors"
	"fmt"
	"math/big"
	"runtime/debug"
	"strings"

	"github.com/formancehq/go-libs/v5/pkg/storage/postgres"
	"github.com/formancehq/go-libs/v5/pkg/types/metadata"
	"github.com/formancehq/go-libs/v5/pkg/types/time"

	ledger "github.com/formancehq/ledger/internal"
	ledgercontroller "github.com/formancehq/ledger/internal/controller/ledger"
	"github.com/formancehq/ledger/internal/machine"
	storagecommon "github.com/formancehq/ledger/internal/storage/common"
	ledgerstore "github.com/formancehq/ledger/internal/storage/ledger"
)

// Op is one client write request.
type Op struct {
	Kind string `json:"kind"` // postings, script, revert, save_tx_meta, del_tx_meta, save_acc_meta, del_acc_meta, insert_schema

	Postings        []P                          `json:"postings,omitempty"`
	Plain           string                       `json:"plain,omitempty"`
	Vars            map[string]string            `json:"vars,omitempty"`
	Runtime         string                       `json:"runtime,omitempty"`
	Template        string                       `json:"template,omitempty"`
	Metadata        map[string]string            `json:"metadata,omitempty"`
	AccountMetadata map[string]map[string]string `json:"accountMetadata,omitempty"`
	Timestamp       string                       `json:"timestamp,omitempty"` // RFC3339Nano or ""
	Reference       string                       `json:"reference,omitempty"`
	Force           bool                         `json:"force,omitempty"`

	TxID            uint64 `json:"txID,omitempty"`
	AtEffectiveDate bool   `json:"atEffectiveDate,omitempty"`
	Key             string `json:"key,omitempty"`
	Address         string `json:"address,omitempty"`

	Version string            `json:"version,omitempty"`
	Schema  ledger.SchemaData `json:"schema,omitempty"`

	DryRun        bool   `json:"dryRun,omitempty"`
	IK            string `json:"ik,omitempty"`
	SchemaVersion string `json:"schemaVersion,omitempty"`
}

type P struct {
	Source      string `json:"s"`
	Destination string `json:"d"`
	Asset       string `json:"a"`
	Amount      string `json:"n"`
}

func (p P) Big() *big.Int {
	n, ok := new(big.Int).SetString(p.Amount, 10)
	if !ok {
		panic("bad amount " + p.Amount)
	}
	return n
}

func (o Op) IsCreate() bool { return o.Kind == "postings" || o.Kind == "script" }

func (o Op) Time() time.Time {
	if o.Timestamp == "" {
		return time.Time{}
	}
	t, err := time.ParseTime(o.Timestamp)
	if err != nil {
		panic(err)
	}
	return t
}

// Outcome is what the client got back.
type Outcome struct {
	Err      error
	Class    string // ok | see Classify
	Hit      bool
	Log      *ledger.Log
	Created  *ledger.CreatedTransaction
	Reverted *ledger.RevertedTransaction
	Schema   *ledger.InsertedSchema
}

func (o Outcome) OK() bool { return o.Err == nil }

// Error classes.
const (
	COK               = "ok"
	CInsufficient     = "insufficient-funds"
	CRefConflict      = "reference-conflict"
	CAlreadyReverted  = "already-reverted"
	CNotFound         = "not-found"
	CIKMismatch       = "ik-input-mismatch"
	CIKConflict       = "ik-conflict"
	CValidation       = "validation"
	CSchema           = "schema"
	CImport           = "import"
	CDeadlock         = "deadlock"
	CTooManyClients   = "too-many-clients"
	CConcurrentTx     = "concurrent-transaction"
	CInjected         = "injected"
	CCanceled         = "canceled"
	COther            = "other"
	CPanic            = "panic"
)

// ErrPanic is a recovered panic of the code under test.
type ErrPanic struct{ Value, Site string }

func (e ErrPanic) Error() string { return "panic: " + e.Value + " at " + e.Site }

// PanicSite extracts the first /repo frame below the panic from a stack dump.
func PanicSite(stack []byte) string {
	lines := strings.Split(string(stack), "\n")
	seenPanic := false
	for i, l := range lines {
		if strings.HasPrefix(l, "panic(") {
			seenPanic = true
			continue
		}
		if !seenPanic {
			continue
		}
		if strings.HasPrefix(l, "github.com/formancehq/ledger/internal") || strings.HasPrefix(l, "github.com/formancehq/ledger/pkg") {
			fn := l
			if j := strings.LastIndex(fn, "("); j > 0 {
				fn = fn[:j]
			}
			fn = strings.TrimPrefix(fn, "github.com/formancehq/ledger/")
			_ = i
			return fn
		}
	}
	return "unknown"
}

// ErrInjected marks errors produced by the fault injector.
type ErrInjected struct{ Site string }

func (e ErrInjected) Error() string { return "injected fault at " + e.Site }

func Classify(err error) string {
	if err == nil {
		return COK
	}
	var inj ErrInjected
	var pan ErrPanic
	if errors.As(err, &pan) {
		return CPanic
	}
	var insuf *machine.ErrInsufficientFund
	var negAmount *machine.ErrNegativeAmount
	var missingMeta *machine.ErrMissingMetadata
	var invalidVars *machine.ErrInvalidVars
	var invalidScript *machine.ErrInvalidScript
	var mdOverride *machine.ErrMetadataOverride
	var ctlMdOverride *ledgercontroller.ErrMetadataOverride
	switch {
	case errors.As(err, &inj):
		return CInjected
	case errors.As(err, &insuf):
		return CInsufficient
	case errors.Is(err, ledgerstore.ErrTransactionReferenceConflict{}), errors.Is(err, ledgercontroller.ErrTransactionReferenceConflict{}):
		return CRefConflict
	case errors.Is(err, ledgercontroller.ErrAlreadyReverted{}):
		return CAlreadyReverted
	case errors.Is(err, ledgercontroller.ErrInvalidIdempotencyInput{}):
		return CIKMismatch
	case errors.Is(err, ledgerstore.ErrIdempotencyKeyConflict{}), errors.Is(err, ledgercontroller.ErrIdempotencyKeyConflict{}):
		return CIKConflict
	case errors.Is(err, postgres.ErrNotFound):
		return CNotFound
	case errors.Is(err, ledgercontroller.ErrSchemaNotFound{}), errors.Is(err, ledgercontroller.ErrSchemaValidationError{}),
		errors.Is(err, ledgercontroller.ErrSchemaNotSpecified{}), errors.Is(err, ledgercontroller.ErrSchemaAlreadyExists{}),
		errors.Is(err, ledger.ErrInvalidSchema{}):
		return CSchema
	case errors.Is(err, ledgercontroller.ErrImport{}):
		return CImport
	case errors.Is(err, postgres.ErrDeadlockDetected):
		return CDeadlock
	case errors.Is(err, postgres.ErrTooManyClient{}):
		return CTooManyClients
	case errors.Is(err, ledgerstore.ErrConcurrentTransaction{}):
		return CConcurrentTx
	case errors.Is(err, context.Canceled), errors.Is(err, context.DeadlineExceeded):
		return CCanceled
	case errors.Is(err, ledgercontroller.ErrNoPostings), errors.Is(err, ledgercontroller.ErrCompilationFailed{}),
		errors.Is(err, ledgercontroller.ErrRuntime{}), errors.Is(err, ledgercontroller.ErrParsing{}),
		errors.As(err, &negAmount), errors.As(err, &missingMeta), errors.As(err, &invalidVars), errors.As(err, &invalidScript),
		errors.As(err, &mdOverride), errors.As(err, &ctlMdOverride), errors.Is(err, storagecommon.ErrInvalidQuery{}):
		return CValidation
	}
	return COther
}

func toPostings(ps []P) ledger.Postings {
	out := make(ledger.Postings, len(ps))
	for i, p := range ps {
		out[i] = ledger.NewPosting(p.Source, p.Destination, p.Asset, p.Big())
	}
	return out
}

func md(m map[string]string) metadata.Metadata {
	if m == nil {
		return nil
	}
	r := metadata.Metadata{}
	for k, v := range m {
		r[k] = v
	}
	return r
}

// CreateParams builds the controller parameters of a create op exactly as the
// v2 API does (TransactionRequest.ToCore -> TxToScriptData for postings).
func (o Op) CreateParams() ledgercontroller.Parameters[ledgercontroller.CreateTransaction] {
	var rs ledgercontroller.RunScript
	if o.Kind == "postings" {
		rs = ledgercontroller.TxToScriptData(ledger.TransactionData{
			Postings:  toPostings(o.Postings),
			Metadata:  md(o.Metadata),
			Timestamp: o.Time(),
			Reference: o.Reference,
		}, o.Force)
	} else {
		m := md(o.Metadata)
		if m == nil {
			m = metadata.Metadata{}
		}
		rs = ledgercontroller.RunScript{
			Script:    ledgercontroller.Script{Plain: o.Plain, Vars: o.Vars, Template: o.Template},
			Timestamp: o.Time(),
			Metadata:  m,
			Reference: o.Reference,
		}
	}
	var am map[string]metadata.Metadata
	if o.AccountMetadata != nil {
		am = map[string]metadata.Metadata{}
		for a, m := range o.AccountMetadata {
			am[a] = md(m)
		}
	}
	return ledgercontroller.Parameters[ledgercontroller.CreateTransaction]{
		DryRun: o.DryRun, IdempotencyKey: o.IK, SchemaVersion: o.SchemaVersion,
		Input: ledgercontroller.CreateTransaction{RunScript: rs, AccountMetadata: am, Runtime: ledger.RuntimeType(o.Runtime)},
	}
}

// ApplyTo runs op on the given controller.
func ApplyTo(ctx context.Context, ctrl ledgercontroller.Controller, o Op) (out Outcome) {
	defer func() {
		// In production the HTTP recover middleware turns a panic into a 500;
		// here it becomes an outcome of class "panic" carrying the panic site.
		if p := recover(); p != nil {
			out = Outcome{Err: ErrPanic{Value: fmt.Sprint(p), Site: PanicSite(debug.Stack())}, Class: CPanic}
		}
	}()
	switch o.Kind {
	case "postings", "script":
		out.Log, out.Created, out.Hit, out.Err = ctrl.CreateTransaction(ctx, o.CreateParams())
	case "revert":
		out.Log, out.Reverted, out.Hit, out.Err = ctrl.RevertTransaction(ctx, ledgercontroller.Parameters[ledgercontroller.RevertTransaction]{
			DryRun: o.DryRun, IdempotencyKey: o.IK, SchemaVersion: o.SchemaVersion,
			Input: ledgercontroller.RevertTransaction{Force: o.Force, AtEffectiveDate: o.AtEffectiveDate, TransactionID: o.TxID, Metadata: md(o.Metadata)},
		})
	case "save_tx_meta":
		out.Log, out.Hit, out.Err = ctrl.SaveTransactionMetadata(ctx, ledgercontroller.Parameters[ledgercontroller.SaveTransactionMetadata]{
			DryRun: o.DryRun, IdempotencyKey: o.IK, SchemaVersion: o.SchemaVersion,
			Input: ledgercontroller.SaveTransactionMetadata{TransactionID: o.TxID, Metadata: md(o.Metadata)},
		})
	case "del_tx_meta":
		out.Log, out.Hit, out.Err = ctrl.DeleteTransactionMetadata(ctx, ledgercontroller.Parameters[ledgercontroller.DeleteTransactionMetadata]{
			DryRun: o.DryRun, IdempotencyKey: o.IK, SchemaVersion: o.SchemaVersion,
			Input: ledgercontroller.DeleteTransactionMetadata{TransactionID: o.TxID, Key: o.Key},
		})
	case "save_acc_meta":
		out.Log, out.Hit, out.Err = ctrl.SaveAccountMetadata(ctx, ledgercontroller.Parameters[ledgercontroller.SaveAccountMetadata]{
			DryRun: o.DryRun, IdempotencyKey: o.IK, SchemaVersion: o.SchemaVersion,
			Input: ledgercontroller.SaveAccountMetadata{Address: o.Address, Metadata: md(o.Metadata)},
		})
	case "del_acc_meta":
		out.Log, out.Hit, out.Err = ctrl.DeleteAccountMetadata(ctx, ledgercontroller.Parameters[ledgercontroller.DeleteAccountMetadata]{
			DryRun: o.DryRun, IdempotencyKey: o.IK, SchemaVersion: o.SchemaVersion,
			Input: ledgercontroller.DeleteAccountMetadata{Address: o.Address, Key: o.Key},
		})
	case "insert_schema":
		out.Log, out.Schema, out.Hit, out.Err = ctrl.InsertSchema(ctx, ledgercontroller.Parameters[ledgercontroller.InsertSchema]{
			DryRun: o.DryRun, IdempotencyKey: o.IK, SchemaVersion: o.SchemaVersion,
			Input: ledgercontroller.InsertSchema{Version: o.Version, Data: o.Schema},
		})
	default:
		panic(fmt.Sprintf("unknown op kind %q", o.Kind))
	}
	out.Class = Classify(out.Err)
	return out
}

// Apply runs op through a fresh controller of the named ledger.
func (e *Env) Apply(name string, o Op) Outcome {
	out := ApplyTo(e.Ctx, e.Ctrl(name), o)
	if out.Class == CPanic {
		e.C.AbortAll() // the request context ends: the database rolls the open transaction back
	}
	return out
}

func (e *Env) ApplyCtx(ctx context.Context, name string, o Op) Outcome {
	c, err := e.Sys.GetLedgerController(ctx, name)
	if err != nil {
		return Outcome{Err: err, Class: Classify(err)}
	}
	return ApplyTo(ctx, c, o)
}
