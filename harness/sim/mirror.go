package sim

import (
	"encoding/json"
	"fmt"
	"math/big"
	"regexp"
	"sort"
	gotime "time"

	"github.com/formancehq/go-libs/v5/pkg/storage/bun/paginate"
	"github.com/formancehq/go-libs/v5/pkg/types/pointer"

	ledger "github.com/formancehq/ledger/internal"
	"github.com/formancehq/ledger/internal/storage/common"
	"github.com/formancehq/ledger/pkg/features"

	"github.com/formancehq/ledger/verifharness/memstore"
	"github.com/formancehq/ledger/verifharness/refledger"
)

// Finding is one refuting observation, tagged with the property it refutes.
type Finding struct {
	Prop   string `json:"prop"`
	Sig    string `json:"sig"`
	Detail any    `json:"detail"`
}

// Documented patterns (pkg/accounts, pkg/assets): copied here as the oracle.
var (
	reAccount = regexp.MustCompile(`^[a-zA-Z0-9_-]+(:[a-zA-Z0-9_-]+)*$`)
	reAsset   = regexp.MustCompile(`^[A-Z][A-Z0-9]{0,16}(_[A-Z]{1,16})?(\/\d{1,6})?$`)
)

// Mirror runs a sequential history on one ledger and keeps the reference in sync.
type Mirror struct {
	E      *Env
	Ledger string
	Ref    *refledger.Ledger
	// Defaults gives the chart default metadata for an address (nil when no schema is in force).
	Defaults func(schemaVersion, addr string) map[string]string
	Findings []Finding
	History  []Op
	Steps    int
	// counters for evidence
	Committed, Failed, DryRuns, Hits int
	Classes                          map[string]int
	ReadsChecked                     int
	Ambiguous                        int
	FullReadEvery                    int // 1 = after every step
	FaultActive                      bool // a fault is being injected: unclassified errors are expected
}

func NewMirror(e *Env, name string) *Mirror {
	return &Mirror{E: e, Ledger: name, Ref: refledger.New(), Classes: map[string]int{}, FullReadEvery: 1}
}

func (m *Mirror) find(prop, sig string, detail any) {
	m.Findings = append(m.Findings, Finding{Prop: prop, Sig: sig, Detail: map[string]any{"step": m.Steps, "op": m.lastOp(), "detail": detail, "history_len": len(m.History)}})
}

func (m *Mirror) lastOp() any {
	if len(m.History) == 0 {
		return nil
	}
	return m.History[len(m.History)-1]
}

func refPostings(ps ledger.Postings) []refledger.Posting {
	out := make([]refledger.Posting, len(ps))
	for i, p := range ps {
		out[i] = refledger.Posting{Source: p.Source, Destination: p.Destination, Asset: p.Asset, Amount: new(big.Int).Set(p.Amount)}
	}
	return out
}

func samePostings(a ledger.Postings, b []refledger.Posting) bool {
	if len(a) != len(b) {
		return false
	}
	for i := range a {
		if a[i].Source != b[i].Source || a[i].Destination != b[i].Destination || a[i].Asset != b[i].Asset || a[i].Amount == nil || a[i].Amount.Cmp(b[i].Amount) != 0 {
			return false
		}
	}
	return true
}

func sameMeta(a map[string]string, b map[string]string) bool {
	if len(a) != len(b) {
		return false
	}
	for k, v := range a {
		if bv, ok := b[k]; !ok || bv != v {
			return false
		}
	}
	return true
}

// expectInsufficient: sequentially applying postings takes a non-world source below zero.
// ambiguous=true when a zero-amount posting draws on an already negative account.
func (m *Mirror) expectInsufficient(ps []P) (fails, ambiguous bool) {
	bal := map[[2]string]*big.Int{}
	get := func(a, as string) *big.Int {
		k := [2]string{a, as}
		if bal[k] == nil {
			bal[k] = m.Ref.Balance(a, as)
		}
		return bal[k]
	}
	for _, p := range ps {
		n := p.Big()
		if p.Source != "world" {
			b := get(p.Source, p.Asset)
			if n.Sign() == 0 {
				if b.Sign() < 0 {
					ambiguous = true
				}
			} else if new(big.Int).Sub(b, n).Sign() < 0 {
				return true, ambiguous
			}
		}
		get(p.Source, p.Asset).Sub(get(p.Source, p.Asset), n)
		get(p.Destination, p.Asset).Add(get(p.Destination, p.Asset), n)
	}
	return false, ambiguous
}

// Step applies op, runs the per-step monitors and updates the reference.
func (m *Mirror) Step(op Op) Outcome {
	m.Steps++
	m.History = append(m.History, op)
	before := m.E.C.Snapshot(m.Ledger)
	evBefore := m.E.Listener.Len()
	out := m.E.Apply(m.Ledger, op)
	after := m.E.C.Snapshot(m.Ledger)
	evAfter := m.E.Listener.Len()
	m.Classes[out.Class]++

	if pend, locks := m.E.C.PendingLeftovers(); pend != 0 || locks != 0 {
		m.find("C07", fmt.Sprintf("C07/open-transaction-or-lock-after-return:%s:%s", op.Kind, out.Class), map[string]any{"pending_rows": pend, "locks": locks})
	}

	switch {
	case !out.OK():
		m.Failed++
		if before.Digest() != after.Digest() {
			m.find("C07", fmt.Sprintf("C07/failed-write-left-trace:%s:%s", op.Kind, out.Class), map[string]any{"error": out.Err.Error(), "before": before, "after": after})
		}
		if evAfter != evBefore {
			m.find("C31", fmt.Sprintf("C31/event-for-failed-write:%s:%s", op.Kind, out.Class), map[string]any{"error": out.Err.Error()})
		}
		if out.Class == CPanic {
			pe := out.Err.(ErrPanic)
			prop := map[string]string{"revert": "C15", "postings": "C25", "script": "C27"}[op.Kind]
			if prop == "" {
				prop = "C38"
			}
			m.find(prop, fmt.Sprintf("%s/controller-panics:%s:%s", prop, op.Kind, pe.Site), map[string]any{"panic": pe.Value, "site": pe.Site})
			if prop != "C38" {
				m.find("C38", fmt.Sprintf("C38/controller-panics:%s:%s", op.Kind, pe.Site), map[string]any{"panic": pe.Value, "site": pe.Site})
			}
		}
		if out.Class == COther && !m.FaultActive {
			m.find("C38", fmt.Sprintf("C38/unclassified-error:%s", op.Kind), map[string]any{"error": out.Err.Error()})
		}
		if op.Kind == "postings" && !op.DryRun && op.IK == "" && (out.Class == CInsufficient) {
			if fails, amb := m.expectInsufficient(op.Postings); amb {
				m.Ambiguous++
			} else if !fails || op.Force {
				m.find("C25", "C25/insufficient-funds-but-sequential-application-stays-non-negative", map[string]any{"error": out.Err.Error(), "force": op.Force})
			}
		}
		return out
	case op.DryRun:
		m.DryRuns++
		if before.Digest() != after.Digest() {
			m.find("C07", fmt.Sprintf("C07/dry-run-left-trace:%s", op.Kind), map[string]any{"before": before, "after": after})
		}
		if evAfter != evBefore {
			m.find("C31", fmt.Sprintf("C31/event-for-dry-run:%s", op.Kind), nil)
		}
		return out
	case out.Hit:
		m.Hits++
		if before.Digest() != after.Digest() {
			m.find("C13", fmt.Sprintf("C13/idempotency-hit-changed-state:%s", op.Kind), map[string]any{"before": before, "after": after})
		}
		if evAfter != evBefore {
			// an idempotent replay is not a new write
		}
		return out
	}

	// committed, non-dry-run write
	m.Committed++
	if d := len(after.Logs) - len(before.Logs); d != 1 {
		m.find("C08", fmt.Sprintf("C08/successful-write-appended-%d-logs:%s", d, op.Kind), nil)
	}
	if len(after.Logs) == len(before.Logs) && evAfter > evBefore {
		m.find("C31", fmt.Sprintf("C31/event-published-for-a-write-that-was-never-committed:%s", op.Kind), map[string]any{"events": evAfter - evBefore})
	}
	if d := evAfter - evBefore; d != 1 {
		m.find("C31", fmt.Sprintf("C31/successful-write-published-%d-events:%s", d, op.Kind), nil)
	}
	if len(before.Logs) > 0 && len(after.Logs) > 0 && out.Log != nil && out.Log.ID != nil && *out.Log.ID <= before.Logs[len(before.Logs)-1].ID {
		m.find("C08", "C08/log-id-not-increasing", map[string]any{"new": *out.Log.ID, "last": before.Logs[len(before.Logs)-1].ID})
	}

	var defaultsFor = func(addr string) map[string]string {
		if m.Defaults == nil {
			return nil
		}
		return m.Defaults(op.SchemaVersion, addr)
	}

	switch op.Kind {
	case "postings", "script":
		tx := out.Created.Transaction
		if op.Kind == "postings" {
			want := make([]refledger.Posting, len(op.Postings))
			for i, p := range op.Postings {
				want[i] = refledger.Posting{Source: p.Source, Destination: p.Destination, Asset: p.Asset, Amount: p.Big()}
			}
			if !samePostings(tx.Postings, want) {
				m.find("C25", "C25/recorded-postings-differ-from-submitted", map[string]any{"recorded": tx.Postings, "submitted": op.Postings})
			}
			if !op.Force && op.IK == "" {
				if fails, amb := m.expectInsufficient(op.Postings); amb {
					m.Ambiguous++
				} else if fails {
					m.find("C25", "C25/accepted-although-sequential-application-overdraws", map[string]any{"postings": op.Postings})
				}
			}
		}
		for i, p := range tx.Postings {
			if !reAccount.MatchString(p.Source) || !reAccount.MatchString(p.Destination) || !reAsset.MatchString(p.Asset) || p.Amount == nil || p.Amount.Sign() < 0 {
				m.find("C28", fmt.Sprintf("C28/ill-formed-posting-committed:%s", op.Kind), map[string]any{"index": i, "posting": p})
			}
		}
		accMeta := map[string]map[string]string{}
		defaults := map[string]map[string]string{}
		for a, md := range out.Created.AccountMetadata {
			accMeta[a] = map[string]string(md)
		}
		// independent expectation: account metadata given in the request plus the literal
		// set_account_meta statements of the script must all be in the committed payload
		for a, md := range expectedAccountMeta(op) {
			for k, v := range md {
				if got, ok := accMeta[a][k]; !ok || got != v {
					m.find("C17", "C17/account-metadata-of-the-request-or-script-missing-from-the-committed-transaction:"+op.Kind, map[string]any{"account": a, "key": k, "want": v, "recorded": out.Created.AccountMetadata, "request": op.AccountMetadata, "script": op.Plain})
					if accMeta[a] == nil {
						accMeta[a] = map[string]string{}
					}
					accMeta[a][k] = v // the reference follows the request, so that the stored state is compared with it too
				}
			}
		}
		involved := map[string]bool{}
		for _, p := range tx.Postings {
			involved[p.Source], involved[p.Destination] = true, true
		}
		for a := range accMeta {
			involved[a] = true
		}
		for a := range involved {
			if d := defaultsFor(a); d != nil {
				defaults[a] = d
			}
		}
		rtx := m.Ref.CommitTx(*tx.ID, refPostings(tx.Postings), map[string]string(tx.Metadata), tx.Timestamp.Time, tx.Reference, accMeta, defaults)
		m.checkTxVolumes("create", &tx, rtx)
		if ts := op.Time(); !ts.IsZero() && !tx.Timestamp.Equal(ts) {
			m.find("C18", "C18/transaction-timestamp-differs-from-requested", map[string]any{"got": tx.Timestamp, "want": ts})
		}
		if op.Reference != tx.Reference {
			m.find("C14", "C14/reference-not-recorded", map[string]any{"got": tx.Reference, "want": op.Reference})
		}
	case "revert":
		orig := m.Ref.Txs[op.TxID]
		rv := out.Reverted
		if orig == nil {
			m.find("C15", "C15/revert-of-unknown-transaction-succeeded", map[string]any{"id": op.TxID})
			break
		}
		if orig.Reverted {
			m.find("C15", "C15/second-revert-succeeded", map[string]any{"id": op.TxID})
		}
		// expected postings: reverse order, swapped
		want := make([]refledger.Posting, 0, len(orig.Postings))
		for i := len(orig.Postings) - 1; i >= 0; i-- {
			p := orig.Postings[i]
			want = append(want, refledger.Posting{Source: p.Destination, Destination: p.Source, Asset: p.Asset, Amount: p.Amount})
		}
		if !samePostings(rv.RevertTransaction.Postings, want) {
			m.find("C15", "C15/revert-postings-not-exact-inverse", map[string]any{"got": rv.RevertTransaction.Postings, "want": want})
		}
		if rv.RevertTransaction.Metadata[ledger.RevertMetadataSpecKey()] != fmt.Sprint(op.TxID) {
			m.find("C15", "C15/revert-mark-metadata-missing", map[string]any{"metadata": rv.RevertTransaction.Metadata})
		}
		for k, v := range op.Metadata {
			if rv.RevertTransaction.Metadata[k] != v {
				m.find("C15", "C15/revert-request-metadata-missing", map[string]any{"metadata": rv.RevertTransaction.Metadata, "key": k})
			}
		}
		if rv.RevertedTransaction.RevertedAt == nil {
			m.find("C15", "C15/reverted-transaction-not-marked-in-result", nil)
		} else {
			if op.AtEffectiveDate {
				if !rv.RevertTransaction.Timestamp.Time.Equal(orig.Timestamp) {
					m.find("C15", "C15/revert-at-effective-date-has-wrong-timestamp", map[string]any{"got": rv.RevertTransaction.Timestamp, "want": orig.Timestamp})
				}
			} else if !rv.RevertTransaction.Timestamp.Equal(*rv.RevertedTransaction.RevertedAt) {
				m.find("C15", "C15/revert-timestamp-is-not-the-revert-time", map[string]any{"got": rv.RevertTransaction.Timestamp, "revertedAt": rv.RevertedTransaction.RevertedAt})
			}
			m.Ref.MarkReverted(op.TxID, rv.RevertedTransaction.RevertedAt.Time)
		}
		if !op.Force {
			// a non-forced revert must not leave a non-world account negative that it debits
			for _, p := range want {
				if p.Source == "world" {
					continue
				}
				nb := new(big.Int).Sub(m.Ref.Balance(p.Source, p.Asset), sumFor(want, p.Source, p.Asset))
				if nb.Sign() < 0 {
					m.find("C06", "C06/non-forced-revert-left-account-negative", map[string]any{"account": p.Source, "asset": p.Asset, "balance_after": nb.String()})
					break
				}
			}
		}
		for i, p := range rv.RevertTransaction.Postings {
			if !reAccount.MatchString(p.Source) || !reAccount.MatchString(p.Destination) || !reAsset.MatchString(p.Asset) || p.Amount == nil || p.Amount.Sign() < 0 {
				m.find("C28", "C28/ill-formed-posting-committed:revert", map[string]any{"index": i, "posting": p, "reverted": op.TxID})
			}
		}
		rtx := m.Ref.CommitTx(*rv.RevertTransaction.ID, refPostings(rv.RevertTransaction.Postings), map[string]string(rv.RevertTransaction.Metadata),
			rv.RevertTransaction.Timestamp.Time, rv.RevertTransaction.Reference, nil, nil)
		m.checkTxVolumes("revert", &rv.RevertTransaction, rtx)
	case "save_tx_meta":
		if m.Ref.Txs[op.TxID] == nil {
			m.find("C17", "C17/metadata-saved-on-unknown-transaction", map[string]any{"id": op.TxID})
		}
		m.Ref.SaveTxMeta(op.TxID, op.Metadata)
	case "del_tx_meta":
		m.Ref.DeleteTxMeta(op.TxID, op.Key)
	case "save_acc_meta":
		at := gotime.Time{}
		if out.Log != nil {
			at = out.Log.Date.Time
		}
		m.Ref.SaveAccountMeta(op.Address, op.Metadata, at, defaultsFor(op.Address))
	case "del_acc_meta":
		m.Ref.DeleteAccountMeta(op.Address, op.Key)
	case "insert_schema":
		m.Ref.Logs++
	}
	if m.FullReadEvery > 0 && m.Committed%m.FullReadEvery == 0 {
		m.CheckReads()
	}
	return out
}

func sumFor(ps []refledger.Posting, acc, asset string) *big.Int {
	s := new(big.Int)
	for _, p := range ps {
		if p.Asset != asset {
			continue
		}
		if p.Source == acc {
			s.Add(s, p.Amount)
		}
		if p.Destination == acc {
			s.Sub(s, p.Amount)
		}
	}
	return s
}

// checkTxVolumes: C03 post/pre-commit volumes of a just-committed transaction.
func (m *Mirror) checkTxVolumes(kind string, tx *ledger.Transaction, rtx *refledger.Tx) {
	for k, want := range rtx.PostCommit {
		got, ok := tx.PostCommitVolumes[k[0]][k[1]]
		if !ok || got.Input == nil || got.Output == nil || got.Input.Cmp(want.In) != 0 || got.Output.Cmp(want.Out) != 0 {
			m.find("C03", "C03/post-commit-volumes-differ-from-fold:"+kind, map[string]any{"account": k[0], "asset": k[1], "got": got, "want_in": want.In.String(), "want_out": want.Out.String()})
			return
		}
	}
	n := 0
	for _, byAsset := range tx.PostCommitVolumes {
		n += len(byAsset)
	}
	if n != len(rtx.PostCommit) {
		m.find("C03", "C03/post-commit-volumes-cover-untouched-pairs:"+kind, map[string]any{"got": tx.PostCommitVolumes})
	}
	// preCommitVolumes as serialised for clients
	b, err := json.Marshal(tx)
	if err != nil {
		m.find("C03", "C03/transaction-not-serialisable", err.Error())
		return
	}
	var aux struct {
		Pre map[string]map[string]struct {
			Input, Output *big.Int
		} `json:"preCommitVolumes"`
	}
	if err := json.Unmarshal(b, &aux); err != nil {
		m.find("C03", "C03/transaction-json-not-readable", err.Error())
		return
	}
	for k, post := range rtx.PostCommit {
		in, out := new(big.Int).Set(post.In), new(big.Int).Set(post.Out)
		for _, p := range rtx.Postings {
			if p.Asset != k[1] {
				continue
			}
			if p.Source == k[0] {
				out.Sub(out, p.Amount)
			}
			if p.Destination == k[0] {
				in.Sub(in, p.Amount)
			}
		}
		got, ok := aux.Pre[k[0]][k[1]]
		if !ok || got.Input == nil || got.Input.Cmp(in) != 0 || got.Output.Cmp(out) != 0 {
			m.find("C03", "C03/pre-commit-volumes-differ:"+kind, map[string]any{"account": k[0], "asset": k[1], "json": string(b), "want_in": in.String(), "want_out": out.String()})
			return
		}
	}
}

// CheckReads compares every read path with the reference (C01, C02, C03, C15, C17, C18).
func (m *Mirror) CheckReads() {
	m.ReadsChecked++
	ctx := m.E.Ctx
	// ---- store-level volumes
	cv := m.E.C.CommittedVolumes(m.Ledger)
	for k, v := range m.Ref.Vols {
		got, ok := cv[k]
		if !ok || got[0].Cmp(v.In) != 0 || got[1].Cmp(v.Out) != 0 {
			m.find("C02", "C02/stored-volumes-differ-from-fold", map[string]any{"account": k[0], "asset": k[1], "want": [2]string{v.In.String(), v.Out.String()}, "got": got})
			break
		}
	}
	for k, got := range cv {
		if _, ok := m.Ref.Vols[k]; !ok && (got[0].Sign() != 0 || got[1].Sign() != 0) {
			m.find("C02", "C02/stored-volumes-for-untouched-pair", map[string]any{"account": k[0], "asset": k[1], "got": got})
			break
		}
	}
	// ---- volumes listing, walked through its cursors
	type vk = [2]string
	listed := map[vk][2]*big.Int{}
	var q common.PaginatedQuery[ledger.GetVolumesOptions] = common.InitialPaginatedQuery[ledger.GetVolumesOptions]{PageSize: 7}
	for i := 0; i < 1000; i++ {
		cur, err := m.E.Ctrl(m.Ledger).GetVolumesWithBalances(ctx, q)
		if err != nil {
			m.find("C02", "C02/volumes-listing-failed", err.Error())
			return
		}
		for _, v := range cur.Data {
			if _, dup := listed[vk{v.Account, v.Asset}]; dup {
				m.find("C21", "C21/volumes-listing-repeats-an-element", map[string]any{"account": v.Account, "asset": v.Asset})
			}
			listed[vk{v.Account, v.Asset}] = [2]*big.Int{v.Input, v.Output}
			if v.Balance == nil || v.Balance.Cmp(new(big.Int).Sub(v.Input, v.Output)) != 0 {
				m.find("C02", "C02/balance-is-not-input-minus-output", v)
			}
		}
		if !cur.HasMore {
			break
		}
		nq, err := common.UnmarshalCursor[ledger.GetVolumesOptions](cur.Next)
		if err != nil {
			m.find("C21", "C21/next-cursor-not-decodable", err.Error())
			return
		}
		q = nq
	}
	sumIn, sumOut := map[string]*big.Int{}, map[string]*big.Int{}
	for k, v := range listed {
		if sumIn[k[1]] == nil {
			sumIn[k[1]], sumOut[k[1]] = new(big.Int), new(big.Int)
		}
		sumIn[k[1]].Add(sumIn[k[1]], v[0])
		sumOut[k[1]].Add(sumOut[k[1]], v[1])
		rv := m.Ref.Vols[k]
		if rv == nil {
			if v[0].Sign() != 0 || v[1].Sign() != 0 {
				m.find("C02", "C02/listed-volumes-for-untouched-pair", map[string]any{"account": k[0], "asset": k[1]})
			}
			continue
		}
		if rv.In.Cmp(v[0]) != 0 || rv.Out.Cmp(v[1]) != 0 {
			m.find("C02", "C02/listed-volumes-differ-from-fold", map[string]any{"account": k[0], "asset": k[1], "got": [2]string{v[0].String(), v[1].String()}, "want": [2]string{rv.In.String(), rv.Out.String()}})
			break
		}
	}
	for k := range m.Ref.Vols {
		if _, ok := listed[k]; !ok {
			m.find("C02", "C02/volumes-listing-misses-a-pair", map[string]any{"account": k[0], "asset": k[1]})
			break
		}
	}
	for asset := range sumIn {
		if sumIn[asset].Cmp(sumOut[asset]) != 0 {
			m.find("C01", "C01/listed-volumes-not-conserved", map[string]any{"asset": asset, "input": sumIn[asset].String(), "output": sumOut[asset].String()})
		}
	}
	// ---- aggregated balances: everything sums to zero
	agg, err := m.E.Ctrl(m.Ledger).GetAggregatedBalances(ctx, common.ResourceQuery[ledger.GetAggregatedVolumesOptions]{})
	if err != nil {
		m.find("C01", "C01/aggregated-balances-failed", err.Error())
	} else {
		for asset, b := range agg {
			if b.Sign() != 0 {
				m.find("C01", "C01/aggregated-balance-not-zero", map[string]any{"asset": asset, "balance": b.String()})
			}
		}
		for asset := range sumIn {
			if _, ok := agg[asset]; !ok {
				m.find("C01", "C01/aggregated-balances-miss-an-asset", asset)
			}
		}
	}
	// ---- accounts
	seen := map[string]bool{}
	var expand []string
	if m.E.Ctrl(m.Ledger).Info().HasFeature(features.FeatureMovesHistory, "ON") {
		expand = []string{"volumes"} // expand=volumes is documented to need MOVES_HISTORY
	}
	var aq common.PaginatedQuery[any] = common.InitialPaginatedQuery[any]{PageSize: 5, Options: common.ResourceQuery[any]{Expand: expand}}
	for i := 0; i < 1000; i++ {
		cur, err := m.E.Ctrl(m.Ledger).ListAccounts(ctx, aq)
		if err != nil {
			m.find("C18", "C18/accounts-listing-failed", err.Error())
			return
		}
		for _, a := range cur.Data {
			if seen[a.Address] {
				m.find("C21", "C21/accounts-listing-repeats-an-element", a.Address)
			}
			seen[a.Address] = true
			ra := m.Ref.Accounts[a.Address]
			if ra == nil {
				m.find("C18", "C18/account-listed-without-committed-usage", a.Address)
				continue
			}
			if !a.FirstUsage.Time.Equal(ra.FirstUsage) {
				op := m.History[len(m.History)-1]
				sig := "C18/first-usage-differs:after-" + op.Kind
				if op.Kind == "save_acc_meta" && a.FirstUsage.Time.After(ra.FirstUsage) {
					// metadata written at a time earlier than the account's (future-dated) first usage did not lower it
					sig = "C18/first-usage-not-lowered-by-metadata-save"
				}
				if op.Kind == "revert" && a.FirstUsage.Time.After(ra.FirstUsage) {
					// the revert transaction is dated earlier than the account's first usage and did not lower it
					sig = "C18/first-usage-not-lowered-by-revert-transaction"
				}
				want := ra.FirstUsage
				// keep the reference at what the ledger holds so that later steps are judged on their own
				ra.FirstUsage = a.FirstUsage.Time
				m.find("C18", sig, map[string]any{"account": a.Address, "got": a.FirstUsage, "want": want})
			}
			if !sameMeta(map[string]string(a.Metadata), ra.Metadata) {
				m.find("C17", "C17/account-metadata-differs", map[string]any{"account": a.Address, "got": a.Metadata, "want": ra.Metadata})
			}
			for asset, v := range a.Volumes {
				rv := m.Ref.Vols[[2]string{a.Address, asset}]
				if rv == nil && (v.Input.Sign() != 0 || v.Output.Sign() != 0) || rv != nil && (rv.In.Cmp(v.Input) != 0 || rv.Out.Cmp(v.Output) != 0) {
					m.find("C02", "C02/account-expanded-volumes-differ", map[string]any{"account": a.Address, "asset": asset})
				}
			}
			for k, rv := range m.Ref.Vols {
				if k[0] == a.Address && len(expand) > 0 {
					if _, ok := a.Volumes[k[1]]; !ok && (rv.In.Sign() != 0 || rv.Out.Sign() != 0) {
						m.find("C02", "C02/account-expanded-volumes-miss-an-asset", map[string]any{"account": a.Address, "asset": k[1]})
					}
				}
			}
		}
		if !cur.HasMore {
			break
		}
		nq, err := common.UnmarshalCursor[any](cur.Next)
		if err != nil {
			m.find("C21", "C21/next-cursor-not-decodable", err.Error())
			return
		}
		aq = nq
	}
	for a := range m.Ref.Accounts {
		if !seen[a] {
			m.find("C18", "C18/involved-account-not-listed", a)
			break
		}
	}
	// ---- transactions (ascending walk)
	var ids []uint64
	var tq common.PaginatedQuery[any] = common.InitialPaginatedQuery[any]{PageSize: 6, Order: pointer.For(paginate.Order(paginate.OrderAsc)), Options: common.ResourceQuery[any]{Expand: []string{"volumes"}}}
	for i := 0; i < 1000; i++ {
		cur, err := m.E.Ctrl(m.Ledger).ListTransactions(ctx, tq)
		if err != nil {
			m.find("C08", "C08/transactions-listing-failed", err.Error())
			return
		}
		for _, tx := range cur.Data {
			ids = append(ids, *tx.ID)
			rt := m.Ref.Txs[*tx.ID]
			if rt == nil {
				m.find("C07", "C07/listed-transaction-never-committed", *tx.ID)
				continue
			}
			if !samePostings(tx.Postings, rt.Postings) {
				m.find("C25", "C25/listed-postings-differ", map[string]any{"id": *tx.ID})
			}
			if !sameMeta(map[string]string(tx.Metadata), rt.Metadata) {
				m.find("C17", "C17/transaction-metadata-differs", map[string]any{"id": *tx.ID, "got": tx.Metadata, "want": rt.Metadata})
			}
			if tx.IsReverted() != rt.Reverted {
				m.find("C15", "C15/reverted-flag-differs", map[string]any{"id": *tx.ID, "got": tx.IsReverted(), "want": rt.Reverted})
			}
			if !tx.Timestamp.Time.Equal(rt.Timestamp) {
				m.find("C03", "C03/transaction-timestamp-changed", map[string]any{"id": *tx.ID})
			}
			for k, want := range rt.PostCommit {
				got, ok := tx.PostCommitVolumes[k[0]][k[1]]
				if !ok || got.Input.Cmp(want.In) != 0 || got.Output.Cmp(want.Out) != 0 {
					m.find("C03", "C03/post-commit-volumes-changed-after-commit", map[string]any{"id": *tx.ID, "account": k[0], "asset": k[1]})
					break
				}
			}
		}
		if !cur.HasMore {
			break
		}
		nq, err := common.UnmarshalCursor[any](cur.Next)
		if err != nil {
			m.find("C21", "C21/next-cursor-not-decodable", err.Error())
			return
		}
		tq = nq
	}
	if !sort.SliceIsSorted(ids, func(i, j int) bool { return ids[i] < ids[j] }) {
		m.find("C21", "C21/transactions-listing-out-of-order", ids)
	}
	if len(ids) != len(m.Ref.Txs) {
		m.find("C21", "C21/transactions-listing-count-differs", map[string]any{"listed": len(ids), "committed": len(m.Ref.Txs)})
	}
	if n, err := m.E.Ctrl(m.Ledger).CountTransactions(ctx, common.ResourceQuery[any]{}); err == nil && n != len(ids) {
		m.find("C20", "C20/count-differs-from-listed", map[string]any{"count": n, "listed": len(ids)})
	}
}

// FindingsFor filters by property.
func (m *Mirror) FindingsFor(prop string) []Finding {
	var out []Finding
	for _, f := range m.Findings {
		if f.Prop == prop {
			out = append(out, f)
		}
	}
	return out
}

var _ = memstore.NewCluster


var reSetAccountMeta = regexp.MustCompile(`set_account_meta\(@([A-Za-z0-9_:]+), "([^"]+)", "([^"]*)"\)`)

// expectedAccountMeta derives, from the request alone, the account metadata a committed
// create must carry: the request's accountMetadata and the script's set_account_meta
// statements with literal arguments (the only form the generators emit). When both set the
// same key on the same account the outcome is not specified: such keys are left out.
func expectedAccountMeta(op Op) map[string]map[string]string {
	ret := map[string]map[string]string{}
	script := map[string]map[string]string{}
	if op.Kind == "script" {
		for _, mm := range reSetAccountMeta.FindAllStringSubmatch(op.Plain, -1) {
			if script[mm[1]] == nil {
				script[mm[1]] = map[string]string{}
			}
			script[mm[1]][mm[2]] = mm[3]
		}
	}
	for a, md := range op.AccountMetadata {
		for k, v := range md {
			if _, both := script[a][k]; both {
				continue
			}
			if ret[a] == nil {
				ret[a] = map[string]string{}
			}
			ret[a][k] = v
		}
	}
	for a, md := range script {
		for k, v := range md {
			if _, both := op.AccountMetadata[a][k]; both {
				continue
			}
			if ret[a] == nil {
				ret[a] = map[string]string{}
			}
			ret[a][k] = v
		}
	}
	return ret
}
