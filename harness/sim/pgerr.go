package sim

import "github.com/jackc/pgx/v5/pgconn"

func pgTooMany(site string) error {
	return &pgconn.PgError{Severity: "FATAL", Code: "53300", Message: "sorry, too many clients already (injected at " + site + ")"}
}
