package sim

import (
	"fmt"
	"math/big"
	"math/rand"
	"strings"
	gotime "time"
)

// Universe of a generated history: few keys, so that operations collide.
var (
	GenAccounts = []string{"world", "bank", "users:001", "users:002", "users:003:wallet", "orders:1", "orders:2:pending", "fees", "users:001:sub"}
	GenAssets   = []string{"USD", "EUR/2", "COIN"}
	StrPool     = []string{"v", "", "it's", `back\slash`, `"quoted"`, "<>&", "héllo wörld ☃", "tab\there", "line\nbreak", strings.Repeat("k", 256), "null", "0"}
)

var bigPool = func() []*big.Int {
	p := func(s string) *big.Int { n, _ := new(big.Int).SetString(s, 10); return n }
	two := big.NewInt(2)
	e := func(n int64) *big.Int { return new(big.Int).Exp(two, big.NewInt(n), nil) }
	one := big.NewInt(1)
	var out []*big.Int
	for _, b := range []*big.Int{e(53), e(63), e(64)} {
		out = append(out, new(big.Int).Sub(b, one), new(big.Int).Add(b, one), b)
	}
	out = append(out, p("1000000000000000000000000000000"))
	return out
}()

// Amount draws from {0,1,small, 2^53±1, 2^63±1, 2^64±1, 10^30, random <= 2^200}.
func Amount(r *rand.Rand, allowZero bool) *big.Int {
	switch x := r.Intn(100); {
	case x < 4 && allowZero:
		return big.NewInt(0)
	case x < 10:
		return big.NewInt(1)
	case x < 80:
		return big.NewInt(int64(1 + r.Intn(200)))
	case x < 93:
		return new(big.Int).Set(bigPool[r.Intn(len(bigPool))])
	default:
		n := new(big.Int).Rand(r, new(big.Int).Lsh(big.NewInt(1), uint(1+r.Intn(200))))
		return n.Add(n, big.NewInt(1))
	}
}

func pick(r *rand.Rand, xs []string) string { return xs[r.Intn(len(xs))] }

func GenMeta(r *rand.Rand, max int) map[string]string {
	n := r.Intn(max + 1)
	if n == 0 {
		return nil
	}
	m := map[string]string{}
	keys := []string{"k1", "k2", "color", "tag", "héllo", "with space", `q"uote`}
	for i := 0; i < n; i++ {
		m[pick(r, keys)] = pick(r, StrPool)
	}
	return m
}

var GenBase = gotime.Date(2030, 1, 1, 0, 0, 0, 0, gotime.UTC)

// GenTimestamp: "" (now) most of the time, else back-dated / future / a tie with an earlier value.
func GenTimestamp(r *rand.Rand, prev []string) string {
	switch x := r.Intn(100); {
	case x < 55:
		return ""
	case x < 75:
		return GenBase.Add(-gotime.Duration(1+r.Intn(100000)) * gotime.Second).Format("2006-01-02T15:04:05.000000Z")
	case x < 88:
		return GenBase.Add(gotime.Duration(1+r.Intn(100000)) * gotime.Second).Format("2006-01-02T15:04:05.000000Z")
	default:
		if len(prev) > 0 {
			return prev[r.Intn(len(prev))]
		}
		return ""
	}
}

// GenState is what the generator knows about the history so far.
type GenState struct {
	TxIDs      []uint64
	Refs       []string
	IKs        []string
	Timestamps []string
	N          int
	NoScripts  bool
	NoBig      bool
	Interp     bool // also generate runtime=experimental-interpreter scripts
}

func amt(r *rand.Rand, st *GenState, zero bool) *big.Int {
	a := Amount(r, zero)
	if st.NoBig && a.BitLen() > 40 {
		return big.NewInt(int64(1 + r.Intn(100)))
	}
	return a
}

func genPostings(r *rand.Rand, st *GenState) []P {
	n := 1 + r.Intn(3)
	if r.Intn(10) == 0 {
		n = 4 + r.Intn(6)
	}
	ps := make([]P, 0, n)
	for i := 0; i < n; i++ {
		src := pick(r, GenAccounts)
		if r.Intn(100) < 55 {
			src = "world"
		}
		dst := pick(r, GenAccounts)
		if r.Intn(12) == 0 {
			dst = src
		}
		if len(ps) > 0 && r.Intn(3) == 0 { // chain: spend what was just received
			src = ps[len(ps)-1].Destination
		}
		ps = append(ps, P{src, dst, pick(r, GenAssets), amt(r, st, true).String()})
	}
	return ps
}

func acctLit(a string) string { return "@" + a }

// GenScript returns a machine-runtime script from a few shapes.
func GenScript(r *rand.Rand, st *GenState) (plain string, vars map[string]string) {
	asset := pick(r, GenAssets)
	src := pick(r, GenAccounts)
	if r.Intn(100) < 40 {
		src = "world"
	}
	dst := pick(r, GenAccounts[1:])
	n := amt(r, st, false)
	var b strings.Builder
	sourceExpr := acctLit(src)
	switch x := r.Intn(10); {
	case x < 2 && src != "world":
		sourceExpr = fmt.Sprintf("%s allowing overdraft up to [%s %s]", acctLit(src), asset, amt(r, st, false))
	case x < 3 && src != "world":
		sourceExpr = fmt.Sprintf("%s allowing unbounded overdraft", acctLit(src))
	case x < 5:
		other := pick(r, GenAccounts[1:])
		sourceExpr = fmt.Sprintf("{\n  %s\n  %s\n  @world\n }", acctLit(src), acctLit(other))
		if src == "world" {
			sourceExpr = fmt.Sprintf("{\n  %s\n  @world\n }", acctLit(other))
		}
	case x < 6 && src != "world":
		sourceExpr = fmt.Sprintf("{\n  max [%s %s] from %s\n  @world\n }", asset, amt(r, st, false), acctLit(src))
	}
	destExpr := acctLit(dst)
	switch x := r.Intn(10); {
	case x < 2:
		destExpr = fmt.Sprintf("{\n  1/3 to %s\n  remaining to %s\n }", acctLit(dst), acctLit(pick(r, GenAccounts[1:])))
	case x < 3:
		destExpr = fmt.Sprintf("{\n  10%% to %s\n  remaining kept\n }", acctLit(dst))
		if strings.Contains(sourceExpr, "world") {
			destExpr = acctLit(dst)
		}
	case x < 4:
		destExpr = fmt.Sprintf("{\n  max [%s %s] to %s\n  remaining to %s\n }", asset, amt(r, st, false), acctLit(dst), acctLit(pick(r, GenAccounts[1:])))
	}
	useVars := r.Intn(4) == 0
	if useVars {
		vars = map[string]string{"dst": dst, "amt": fmt.Sprintf("%s %s", asset, n)}
		b.WriteString("vars {\n account $dst\n monetary $amt\n}\n")
		fmt.Fprintf(&b, "send $amt (\n source = %s\n destination = $dst\n)\n", sourceExpr)
	} else if r.Intn(8) == 0 && !strings.Contains(sourceExpr, "world") && !strings.Contains(sourceExpr, "unbounded") {
		fmt.Fprintf(&b, "send [%s *] (\n source = %s\n destination = %s\n)\n", asset, sourceExpr, destExpr)
	} else {
		fmt.Fprintf(&b, "send [%s %s] (\n source = %s\n destination = %s\n)\n", asset, n, sourceExpr, destExpr)
	}
	if r.Intn(4) == 0 {
		fmt.Fprintf(&b, "set_tx_meta(\"smeta\", \"%s\")\n", pick(r, []string{"a", "b", "héllo"}))
	}
	if r.Intn(4) == 0 {
		fmt.Fprintf(&b, "set_account_meta(%s, \"sacc\", \"%s\")\n", acctLit(dst), pick(r, []string{"x", "y"}))
	}
	if r.Intn(6) == 0 {
		fmt.Fprintf(&b, "send [%s %s] (\n source = @world\n destination = %s\n)\n", pick(r, GenAssets), amt(r, st, false), acctLit(pick(r, GenAccounts[1:])))
	}
	return b.String(), vars
}

// GenOp draws the next operation of a history.
func GenOp(r *rand.Rand, st *GenState) Op {
	st.N++
	var o Op
	x := r.Intn(100)
	switch {
	case x < 34 || len(st.TxIDs) == 0 && x < 70:
		o = Op{Kind: "postings", Postings: genPostings(r, st), Metadata: GenMeta(r, 2), Force: r.Intn(8) == 0}
		if r.Intn(5) == 0 {
			o.AccountMetadata = map[string]map[string]string{pick(r, GenAccounts[1:]): GenMeta(r, 2)}
		}
	case x < 55 && !st.NoScripts:
		o = Op{Kind: "script", Metadata: GenMeta(r, 2)}
		o.Plain, o.Vars = GenScript(r, st)
		if r.Intn(4) == 0 {
			// request-level account metadata next to the script's own set_account_meta: half of the
			// time on the very account the script annotates (other keys), otherwise on another one
			a := pick(r, GenAccounts[1:])
			if mm := reSetAccountMeta.FindStringSubmatch(o.Plain); mm != nil && r.Intn(2) == 0 {
				a = mm[1]
			}
			o.AccountMetadata = map[string]map[string]string{a: GenMeta(r, 2)}
		}
		if st.Interp && r.Intn(3) == 0 {
			o.Runtime = "experimental-interpreter"
		}
	case x < 55:
		o = Op{Kind: "postings", Postings: genPostings(r, st)}
	case x < 68:
		o = Op{Kind: "revert", TxID: pickID(r, st), Force: r.Intn(3) == 0, AtEffectiveDate: r.Intn(2) == 0, Metadata: GenMeta(r, 1)}
	case x < 76:
		o = Op{Kind: "save_tx_meta", TxID: pickID(r, st), Metadata: GenMeta(r, 3)}
		if o.Metadata == nil {
			o.Metadata = map[string]string{"k1": "v"}
		}
	case x < 81:
		o = Op{Kind: "del_tx_meta", TxID: pickID(r, st), Key: pick(r, []string{"k1", "k2", "color", "smeta", "absent"})}
	case x < 92:
		o = Op{Kind: "save_acc_meta", Address: pick(r, append([]string{"meta:only:1", "meta:only:2"}, GenAccounts...)), Metadata: GenMeta(r, 3)}
		if o.Metadata == nil {
			o.Metadata = map[string]string{"k2": "w"}
		}
	default:
		o = Op{Kind: "del_acc_meta", Address: pick(r, append([]string{"meta:only:1", "never:seen"}, GenAccounts...)), Key: pick(r, []string{"k1", "k2", "sacc", "absent"})}
	}
	if o.IsCreate() {
		o.Timestamp = GenTimestamp(r, st.Timestamps)
		if o.Timestamp != "" {
			st.Timestamps = append(st.Timestamps, o.Timestamp)
		}
		switch y := r.Intn(10); {
		case y < 2:
			o.Reference = fmt.Sprintf("ref-%d", st.N)
			st.Refs = append(st.Refs, o.Reference)
		case y < 3 && len(st.Refs) > 0:
			o.Reference = pick(r, st.Refs) // duplicate
		}
	}
	switch y := r.Intn(20); {
	case y < 2:
		o.IK = fmt.Sprintf("ik-%d", st.N)
		st.IKs = append(st.IKs, o.IK)
	case y < 3 && len(st.IKs) > 0:
		o.IK = pick(r, st.IKs)
	}
	return o
}

func pickID(r *rand.Rand, st *GenState) uint64 {
	if len(st.TxIDs) == 0 || r.Intn(12) == 0 {
		return uint64(9000 + r.Intn(5))
	}
	return st.TxIDs[r.Intn(len(st.TxIDs))]
}

// Shape is a coarse signature of an op for distinctness counting.
func (o Op) Shape() string {
	s := o.Kind
	if o.DryRun {
		s += "+dry"
	}
	if o.IK != "" {
		s += "+ik"
	}
	if o.Force {
		s += "+force"
	}
	if o.AtEffectiveDate {
		s += "+eff"
	}
	if o.Timestamp != "" {
		s += "+ts"
	}
	if o.Reference != "" {
		s += "+ref"
	}
	if o.Kind == "postings" {
		s += fmt.Sprintf("+n%d", len(o.Postings))
	}
	if o.Kind == "script" {
		for _, kw := range []string{"overdraft up to", "unbounded", "max [", "kept", "remaining", " *]", "vars", "set_tx_meta", "set_account_meta"} {
			if strings.Contains(o.Plain, kw) {
				s += "+" + strings.TrimSpace(kw)
			}
		}
	}
	return s
}
