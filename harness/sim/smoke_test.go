package sim

import (
	"math/big"
	"testing"

	"github.com/formancehq/go-libs/v5/pkg/query"
	ledger "github.com/formancehq/ledger/internal"
	ledgercontroller "github.com/formancehq/ledger/internal/controller/ledger"
	"github.com/formancehq/ledger/internal/storage/common"
)

func TestSmoke(t *testing.T) {
	e := NewEnv(Options{})
	defer e.Close()
	if err := e.CreateLedger("l1", "_default", nil); err != nil {
		t.Fatal(err)
	}
	ctrl := e.Ctrl("l1")
	log, res, hit, err := ctrl.CreateTransaction(e.Ctx, ledgercontroller.Parameters[ledgercontroller.CreateTransaction]{
		Input: ledgercontroller.CreateTransaction{RunScript: ledgercontroller.TxToScriptData(ledger.TransactionData{
			Postings: ledger.Postings{{Source: "world", Destination: "bank", Asset: "USD", Amount: big.NewInt(100)}},
		}, false)},
	})
	if err != nil {
		t.Fatal(err)
	}
	t.Logf("log=%d hit=%v tx=%d pcv=%v", *log.ID, hit, *res.Transaction.ID, res.Transaction.PostCommitVolumes)
	ctrl = e.Ctrl("l1")
	_, _, _, err = ctrl.CreateTransaction(e.Ctx, ledgercontroller.Parameters[ledgercontroller.CreateTransaction]{
		Input: ledgercontroller.CreateTransaction{RunScript: ledgercontroller.RunScript{Script: ledgercontroller.Script{Plain: "send [USD 30] (\n source=@bank\n destination=@alice\n)"}}},
	})
	if err != nil {
		t.Fatal(err)
	}
	cur, err := e.Ctrl("l1").ListTransactions(e.Ctx, common.InitialPaginatedQuery[any]{PageSize: 1, Options: common.ResourceQuery[any]{Expand: []string{"volumes"}}})
	if err != nil {
		t.Fatal(err)
	}
	t.Logf("page: %d hasMore=%v next=%s first=%+v", len(cur.Data), cur.HasMore, cur.Next, cur.Data[0])
	acc, err := e.Ctrl("l1").GetAccount(e.Ctx, common.ResourceQuery[any]{Builder: query.Match("address", "bank"), Expand: []string{"volumes"}})
	if err != nil {
		t.Fatal(err)
	}
	t.Logf("account %+v", acc)
	logs, err := e.Ctrl("l1").ListLogs(e.Ctx, common.InitialPaginatedQuery[any]{PageSize: 10})
	if err != nil {
		t.Fatal(err)
	}
	for _, l := range logs.Data {
		t.Logf("log %d %s hash=%x", *l.ID, l.Type, l.Hash)
	}
	bal, err := e.Ctrl("l1").GetAggregatedBalances(e.Ctx, common.ResourceQuery[ledger.GetAggregatedVolumesOptions]{})
	t.Logf("agg %v %v", bal, err)
	vols, err := e.Ctrl("l1").GetVolumesWithBalances(e.Ctx, common.InitialPaginatedQuery[ledger.GetVolumesOptions]{PageSize: 10})
	if err != nil {
		t.Fatal(err)
	}
	for _, v := range vols.Data {
		t.Logf("vol %s %s %s/%s", v.Account, v.Asset, v.Input, v.Output)
	}
	t.Logf("events: %+v", e.Listener.Snapshot())
	t.Logf("stats %v", e.C.Stats())
}
