package pgshim

import "fmt"

func sprint(v any) string { return fmt.Sprint(v) }
