// Package pgshim is a fake database/sql driver placed under a real *bun.DB with
// the real pgdialect. The Go code of /repo's storage layer runs unmodified on
// top of it, renders its SQL (bun inlines arguments) and hands the text to the
// Handler. The shim records every statement and lets the handler answer it.
package pgshim

import (
	"context"
	"database/sql"
	"database/sql/driver"
	"errors"
	"io"
	"strings"
	"sync"
	"sync/atomic"

	"github.com/uptrace/bun"
	"github.com/uptrace/bun/dialect/pgdialect"
)

// Kind of an event handed to the handler.
const (
	KBegin    = "begin"
	KCommit   = "commit"
	KRollback = "rollback"
	KExec     = "exec"
	KQuery    = "query"
	KClose    = "close"
)

// Rows is a handler's answer.
type Rows struct {
	Cols     []string
	Data     [][]driver.Value
	Affected int64
}

// Stmt is one recorded statement.
type Stmt struct {
	Seq    int64
	ConnID int64
	TxID   int64 // 0 = autocommit
	Kind   string
	SQL    string
	Err    string
}

// Handler answers a statement. Returning (nil, nil) means "no rows / 0 affected".
type Handler func(ctx context.Context, c *Conn, kind, sql string) (*Rows, error)

type Shim struct {
	mu      sync.Mutex
	handler Handler
	log     []Stmt
	record  bool
	seq     atomic.Int64
	connSeq atomic.Int64
	txSeq   atomic.Int64
}

func New(h Handler) *Shim { return &Shim{handler: h, record: true} }

func (s *Shim) SetRecord(b bool) { s.mu.Lock(); s.record = b; s.mu.Unlock() }
func (s *Shim) SetHandler(h Handler) { s.mu.Lock(); s.handler = h; s.mu.Unlock() }

func (s *Shim) Log() []Stmt {
	s.mu.Lock()
	defer s.mu.Unlock()
	return append([]Stmt(nil), s.log...)
}

func (s *Shim) ResetLog() { s.mu.Lock(); s.log = nil; s.mu.Unlock() }

// DB opens a real bun.DB (pgdialect) over this shim.
func (s *Shim) DB() *bun.DB {
	sqldb := sql.OpenDB(&connector{s: s})
	sqldb.SetMaxIdleConns(64)
	return bun.NewDB(sqldb, pgdialect.New())
}

type connector struct{ s *Shim }

func (c *connector) Connect(context.Context) (driver.Conn, error) {
	return &Conn{s: c.s, ID: c.s.connSeq.Add(1)}, nil
}
func (c *connector) Driver() driver.Driver { return drv{} }

type drv struct{}

func (drv) Open(string) (driver.Conn, error) { return nil, errors.New("pgshim: use connector") }

// Conn is one fake connection. Data is free for the handler (session binding).
type Conn struct {
	s    *Shim
	ID   int64
	TxID int64
	Data any
}

func (c *Conn) do(ctx context.Context, kind, q string) (*Rows, error) {
	c.s.mu.Lock()
	h := c.s.handler
	rec := c.s.record
	c.s.mu.Unlock()
	var (
		r   *Rows
		err error
	)
	if h != nil {
		r, err = h(ctx, c, kind, q)
	}
	if rec {
		st := Stmt{Seq: c.s.seq.Add(1), ConnID: c.ID, TxID: c.TxID, Kind: kind, SQL: q}
		if err != nil {
			st.Err = err.Error()
		}
		c.s.mu.Lock()
		c.s.log = append(c.s.log, st)
		c.s.mu.Unlock()
	}
	return r, err
}

func (c *Conn) Prepare(string) (driver.Stmt, error) { return nil, errors.New("pgshim: prepare unsupported") }
func (c *Conn) Close() error                        { _, _ = c.do(context.Background(), KClose, ""); return nil }
func (c *Conn) Begin() (driver.Tx, error)           { return c.BeginTx(context.Background(), driver.TxOptions{}) }

func (c *Conn) BeginTx(ctx context.Context, _ driver.TxOptions) (driver.Tx, error) {
	c.TxID = c.s.txSeq.Add(1)
	if _, err := c.do(ctx, KBegin, "BEGIN"); err != nil {
		c.TxID = 0
		return nil, err
	}
	return &tx{c: c}, nil
}

// ResetSession is called by database/sql when a connection is reused.
func (c *Conn) ResetSession(context.Context) error { return nil }
func (c *Conn) IsValid() bool                      { return true }

type tx struct{ c *Conn }

func (t *tx) Commit() error {
	_, err := t.c.do(context.Background(), KCommit, "COMMIT")
	t.c.TxID = 0
	return err
}
func (t *tx) Rollback() error {
	_, err := t.c.do(context.Background(), KRollback, "ROLLBACK")
	t.c.TxID = 0
	return err
}

func (c *Conn) ExecContext(ctx context.Context, q string, args []driver.NamedValue) (driver.Result, error) {
	q = inline(q, args)
	r, err := c.do(ctx, KExec, q)
	if err != nil {
		return nil, err
	}
	if r == nil {
		return driver.RowsAffected(0), nil
	}
	if r.Affected == 0 && len(r.Data) > 0 {
		return driver.RowsAffected(len(r.Data)), nil
	}
	return driver.RowsAffected(r.Affected), nil
}

func (c *Conn) QueryContext(ctx context.Context, q string, args []driver.NamedValue) (driver.Rows, error) {
	q = inline(q, args)
	r, err := c.do(ctx, KQuery, q)
	if err != nil {
		return nil, err
	}
	if r == nil {
		r = &Rows{}
		// bun's Count() scans one row: give count(*) a zero.
		lq := strings.ToLower(q)
		if strings.HasPrefix(strings.TrimSpace(lq), "select count(*)") {
			r = &Rows{Cols: []string{"count"}, Data: [][]driver.Value{{int64(0)}}}
		}
	}
	return &rows{r: r}, nil
}

// bun inlines all arguments itself; database/sql-level args only appear for the
// few raw conn.ExecContext calls of the repo (advisory locks), with `?` marks.
func inline(q string, args []driver.NamedValue) string {
	if len(args) == 0 {
		return q
	}
	var b strings.Builder
	i := 0
	for _, r := range q {
		if r == '?' && i < len(args) {
			switch v := args[i].Value.(type) {
			case string:
				b.WriteString("'" + strings.ReplaceAll(v, "'", "''") + "'")
			default:
				b.WriteString(strings.TrimSpace(strings.Trim(strings.ReplaceAll(sprint(v), "\n", " "), " ")))
			}
			i++
			continue
		}
		b.WriteRune(r)
	}
	return b.String()
}

type rows struct {
	r *Rows
	i int
}

func (r *rows) Columns() []string { return r.r.Cols }
func (r *rows) Close() error      { return nil }
func (r *rows) Next(dest []driver.Value) error {
	if r.i >= len(r.r.Data) {
		return io.EOF
	}
	copy(dest, r.r.Data[r.i])
	r.i++
	return nil
}
