// Package sched is the cooperative scheduler of controlled mode: every logical
// client runs in its own goroutine but only the one holding the token runs; at
// each yield point (memstore store-call boundary, lock wait, COMMIT) the
// scheduler decides who continues. A schedule is the list of decisions; it is
// the replay artefact and its hash is what "distinct interleavings" counts.
package sched

import (
	"context"
	"crypto/sha256"
	"encoding/hex"
	"fmt"
	"math/rand"
	"sort"
	"strings"
	"sync"
	"time"

	"github.com/formancehq/ledger/verifharness/memstore"
)

type state int

const (
	stNew state = iota
	stRunnable
	stBlocked
	stRunning
	stDone
)

type client struct {
	id     int
	st     state
	site   string
	ready  func() bool
	resume chan struct{}
}

// Step is one scheduling decision.
type Step struct {
	Enabled []int  `json:"enabled"`
	Chosen  int    `json:"chosen"`
	Current int    `json:"current"` // client that was running before the decision (-1: none)
	Site    string `json:"site"`    // site at which the chosen client resumes
}

// Chooser picks the next client among enabled ones.
type Chooser interface {
	Choose(step int, current int, enabled []int) int
}

type Sched struct {
	mu      sync.Mutex
	clients []*client
	parked  chan int // a client parked (yield/block/done)
	Trace   []Step
	chooser Chooser
	current int
	Stuck   bool // all remaining clients blocked and none ready
	Diverged bool
	timeout time.Duration
}

func New(n int, ch Chooser) *Sched {
	s := &Sched{chooser: ch, parked: make(chan int, n+1), current: -1, timeout: 30 * time.Second}
	for i := 0; i < n; i++ {
		s.clients = append(s.clients, &client{id: i, st: stNew, resume: make(chan struct{}, 1)})
	}
	return s
}

var _ memstore.Scheduler = (*Sched)(nil)

func (s *Sched) clientOf(ctx context.Context) *client {
	id := memstore.ClientOf(ctx)
	if id < 0 || id >= len(s.clients) {
		return nil
	}
	return s.clients[id]
}

// Yield parks the calling client as runnable and waits to be resumed.
func (s *Sched) Yield(ctx context.Context, site string) {
	c := s.clientOf(ctx)
	if c == nil {
		return
	}
	s.mu.Lock()
	c.st, c.site, c.ready = stRunnable, site, nil
	s.mu.Unlock()
	s.parked <- c.id
	<-c.resume
}

// Block parks the calling client until ready() holds at a scheduling point.
func (s *Sched) Block(ctx context.Context, site string, ready func() bool) {
	c := s.clientOf(ctx)
	if c == nil {
		// not a scheduled client: poll
		for !ready() {
			time.Sleep(50 * time.Microsecond)
		}
		return
	}
	s.mu.Lock()
	c.st, c.site, c.ready = stBlocked, site, ready
	s.mu.Unlock()
	s.parked <- c.id
	<-c.resume
}

// Run executes the client bodies under the scheduler and returns when all are
// done, or when the run is stuck (every remaining client blocked, none ready).
func (s *Sched) Run(ctx context.Context, bodies []func(ctx context.Context)) {
	for i, b := range bodies {
		c := s.clients[i]
		body := b
		cctx := memstore.WithClient(ctx, i)
		go func() {
			// wait for the first scheduling
			s.mu.Lock()
			c.st, c.site = stRunnable, "start"
			s.mu.Unlock()
			s.parked <- c.id
			<-c.resume
			body(cctx)
			s.mu.Lock()
			c.st = stDone
			s.mu.Unlock()
			s.parked <- c.id
		}()
	}
	// wait until every client has parked once
	for range bodies {
		<-s.parked
	}
	for step := 0; ; step++ {
		if step > 50000 { // livelock guard: a run that never ends is reported as stuck, never left spinning
			s.Stuck = true
			return
		}
		s.mu.Lock()
		var enabled []int
		alive := 0
		for _, c := range s.clients {
			switch c.st {
			case stRunnable:
				enabled = append(enabled, c.id)
				alive++
			case stBlocked:
				alive++
			}
		}
		blocked := []*client{}
		for _, c := range s.clients {
			if c.st == stBlocked {
				blocked = append(blocked, c)
			}
		}
		s.mu.Unlock()
		for _, c := range blocked { // ready() takes memstore's lock: call outside ours
			if c.ready() {
				enabled = append(enabled, c.id)
			}
		}
		sort.Ints(enabled)
		if alive == 0 {
			return
		}
		if len(enabled) == 0 {
			s.Stuck = true
			return
		}
		cur := s.current
		chosen := s.chooser.Choose(step, cur, enabled)
		ok := false
		for _, e := range enabled {
			if e == chosen {
				ok = true
			}
		}
		if !ok {
			s.Diverged = true
			chosen = enabled[0]
		}
		c := s.clients[chosen]
		s.mu.Lock()
		c.st = stRunning
		site := c.site
		s.mu.Unlock()
		s.Trace = append(s.Trace, Step{Enabled: enabled, Chosen: chosen, Current: cur, Site: site})
		s.current = chosen
		c.resume <- struct{}{}
		select {
		case <-s.parked:
		case <-time.After(s.timeout):
			s.Stuck = true
			return
		}
		s.mu.Lock()
		if s.clients[chosen].st == stDone {
			s.current = -1
		}
		s.mu.Unlock()
	}
}

// Hash identifies the interleaving: the sequence of (client, site).
func (s *Sched) Hash() string {
	h := sha256.New()
	for _, st := range s.Trace {
		fmt.Fprintf(h, "%d@%s;", st.Chosen, st.Site)
	}
	return hex.EncodeToString(h.Sum(nil)[:12])
}

func (s *Sched) Choices() []int {
	out := make([]int, len(s.Trace))
	for i, st := range s.Trace {
		out[i] = st.Chosen
	}
	return out
}

func (s *Sched) String() string {
	var b strings.Builder
	for _, st := range s.Trace {
		fmt.Fprintf(&b, "%d@%s ", st.Chosen, st.Site)
	}
	return b.String()
}

// ---------------------------------------------------------------------------
// choosers

// PrefixChooser follows a prescribed prefix, then a non-preemptive default
// (continue the current client when enabled, else the smallest enabled id).
type PrefixChooser struct{ Prefix []int }

func (p *PrefixChooser) Choose(step, current int, enabled []int) int {
	if step < len(p.Prefix) {
		return p.Prefix[step]
	}
	for _, e := range enabled {
		if e == current {
			return e
		}
	}
	return enabled[0]
}

// RandomChooser: PCT-flavoured random walk; switches client with probability 1/Switch.
type RandomChooser struct {
	Rng    *rand.Rand
	Switch int
}

func (r *RandomChooser) Choose(step, current int, enabled []int) int {
	for _, e := range enabled {
		if e == current && r.Rng.Intn(r.Switch) != 0 {
			return e
		}
	}
	return enabled[r.Rng.Intn(len(enabled))]
}

// ---------------------------------------------------------------------------
// bounded exhaustive exploration

// Explorer enumerates schedules with at most Bound preemptions, each exactly once.
type Explorer struct {
	Bound    int
	MaxRuns  int
	Rng      *rand.Rand
	work     [][]int
	Runs     int
	Complete bool // the whole bounded space was enumerated
	Diverged int
}

func preemptions(trace []Step, upto int) int {
	n := 0
	for i := 0; i < upto && i < len(trace); i++ {
		st := trace[i]
		if st.Current >= 0 && st.Chosen != st.Current {
			for _, e := range st.Enabled {
				if e == st.Current {
					n++
				}
			}
		}
	}
	return n
}

// Explore calls run(prefix) repeatedly; run must build a fresh system, execute
// it under a PrefixChooser{prefix} and return the scheduler.
func (x *Explorer) Explore(run func(prefix []int) *Sched) {
	x.work = [][]int{{}}
	for len(x.work) > 0 && x.Runs < x.MaxRuns {
		i := len(x.work) - 1
		if x.Rng != nil {
			i = x.Rng.Intn(len(x.work))
		}
		prefix := x.work[i]
		x.work[i] = x.work[len(x.work)-1]
		x.work = x.work[:len(x.work)-1]
		s := run(prefix)
		x.Runs++
		if s.Diverged {
			x.Diverged++
			continue
		}
		choices := s.Choices()
		for p := len(prefix); p < len(s.Trace); p++ {
			st := s.Trace[p]
			base := preemptions(s.Trace, p)
			for _, alt := range st.Enabled {
				if alt == st.Chosen {
					continue
				}
				cost := 0
				if st.Current >= 0 && alt != st.Current {
					for _, e := range st.Enabled {
						if e == st.Current {
							cost = 1
						}
					}
				}
				if base+cost > x.Bound {
					continue
				}
				np := append(append([]int(nil), choices[:p]...), alt)
				x.work = append(x.work, np)
			}
		}
	}
	x.Complete = len(x.work) == 0
}
