# Sourced by every script: the offline Go toolchain the baseline used.
export GO=/root/go/pkg/mod/golang.org/toolchain@v0.0.1-go1.26.1.linux-amd64/bin/go
export GOFLAGS=-mod=mod GOPROXY=off GOSUMDB=off GOTOOLCHAIN=local
export VERIF_DIR="${VERIF_DIR:-$(cd "$(dirname "${BASH_SOURCE[0]}")/.." && pwd)}"
export PATH="$(dirname "$GO"):$PATH"
