#!/usr/bin/env python3
"""Regenerates MANIFEST.json from bin/manifest_checks.json (the per-check texts) so the file stays valid."""
import json,os,sys
d=os.path.dirname(os.path.abspath(__file__))
root=os.path.dirname(d)
spec=json.load(open(os.path.join(d,'manifest_checks.json')))
checks=[]
for c in spec['checks']:
    i=c['id']
    checks.append({
        "property_id": i,
        "quick_cmd": f"bin/check {i} quick",
        "thorough_cmd": f"bin/check {i} thorough",
        "evidence_file": f"/verif/evidence/{i}.json",
        "replay_cmd_template": f"bin/check {i} quick --replay {{path}}",
        "engine": c.get("engine","ctrlsim"),
        "level_claimed": {"category": c["category"], "text": c["text"], "design_ref": c.get("design_ref","DESIGN.md section 3, "+i)},
        "level_note": c["note"],
        "technique": c["technique"],
    })
m={
 "version":1,
 "setup_cmd":"bin/build all",
 "hooks":{
   "guard":"verif",
   "enable":"go build -tags verif (bin/build); hook files in /repo are //go:build verif",
   "baseline_off_cmd":"bin/baseline_off",
   "source_commits": spec.get("hook_commits",[]),
   "add_only": True
 },
 "engines": spec["engines"],
 "checks": checks,
 "notes": spec["notes"],
 "not_applicable": spec["not_applicable"],
}
json.dump(m,open(os.path.join(root,'MANIFEST.json'),'w'),indent=1)
print("checks:",len(checks),"n/a:",len(spec["not_applicable"]))
