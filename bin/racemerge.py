#!/usr/bin/env python3
"""Parses GORACE logs, dedupes reports by the pair of outermost /repo frames, reports
repo-vs-repo races as violations (minus known findings), merges counts into evidence."""
import sys, json, glob, os, re, hashlib
pid, prefix, vdir = sys.argv[1], sys.argv[2], sys.argv[3]
text = ""
for f in sorted(glob.glob(prefix + ".*")):
    text += open(f, errors="replace").read()
blocks = [b for b in text.split("==================") if "WARNING: DATA RACE" in b]
REPO = "github.com/formancehq/ledger/internal", "github.com/formancehq/ledger/pkg", "github.com/formancehq/ledger/cmd"
def stacks(b):
    # split into the two access stacks (stop at "Goroutine ... created at")
    parts = re.split(r"\n(?=Previous (?:read|write)|Goroutine \d+ \()", b)
    acc = [p for p in parts if re.match(r"\s*(WARNING: DATA RACE\n)?(Read|Write|Previous read|Previous write)", p.strip()) or p.strip().startswith("WARNING")]
    out = []
    for p in acc[:2]:
        fr = [l.strip() for l in p.splitlines() if l.startswith("  ") and "(" in l and not l.strip().startswith("/")]
        out.append(fr)
    return out
known = {}
try:
    kf = json.load(open(os.path.join(vdir, "known_findings.json")))
    for f in kf.get("findings", []):
        if f["property"] == pid:
            known[f["signature"]] = f["what"]
except Exception:
    pass
sigs = {}
for b in blocks:
    st = stacks(b)
    tops = []
    for fr in st:
        rf = [re.sub(r"\(.*", "", f) for f in fr if f.startswith(REPO) and "verifharness" not in f]
        tops.append(rf[0].replace("github.com/formancehq/ledger/", "") if rf else None)
    if len(tops) == 2 and all(tops):
        sig = "%s/data-race:%s|%s" % (pid, *sorted(tops))
        sigs.setdefault(sig, b)
rc = 0
viol = 0
for sig, b in sorted(sigs.items()):
    if sig in known:
        print("KNOWN-FINDING: property=%s %s [%s]" % (pid, known[sig], sig))
        continue
    h = hashlib.sha256(sig.encode()).hexdigest()[:12]
    path = os.path.join(vdir, "replays", "%s-race-%s.txt" % (pid, h))
    os.makedirs(os.path.dirname(path), exist_ok=True)
    open(path, "w").write(sig + "\n" + b)
    print("VIOLATION property=%s replay=%s" % (pid, path))
    print("  signature: " + sig)
    rc = 1; viol += 1
evp = os.path.join(vdir, "evidence", pid + ".json")
part = os.path.join(vdir, "evidence", "parts", pid + ".race.json")
try:
    ev = json.load(open(evp))
    cov = ev["coverage"]
    cov["race_detector_reports_total"] = len(blocks)
    cov["race_detector_reports_repo_vs_repo_distinct"] = len(sigs)
    if os.path.exists(part):
        p = json.load(open(part))
        pc = p["coverage"]
        cov["race_part"] = {k: v for k, v in pc.items() if k not in ("samples", "rule")}
        ev["wall_s"] = ev.get("wall_s", 0) + p.get("wall_s", 0)
    ev["violations"] = ev.get("violations", 0) + viol
    json.dump(ev, open(evp, "w"), indent=1)
except Exception as e:
    print("INCONCLUSIVE property=%s reason=cannot merge race evidence: %s" % (pid, e)); sys.exit(2)
print("%s race part: reports=%d distinct_repo_vs_repo=%d" % (pid, len(blocks), len(sigs)))
sys.exit(rc)
