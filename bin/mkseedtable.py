#!/usr/bin/env python3
# Regenerates the seeded-change table of DESIGN.md (between the SEEDED-TABLE markers) from seeded/*/meta.json.
import json,glob,os,re
root=os.path.dirname(os.path.dirname(os.path.abspath(__file__)))
rows=[]
for f in sorted(glob.glob(root+'/seeded/*/meta.json')):
    m=json.load(open(f))
    rows.append("| %s | %s | %s | %s | %s |"%(m['id'],m['breaks_property'],m['change'].replace('|','/'),m['needs_to_manifest'].replace('|','/'),m['detected_by'].replace('|','/')))
tab="| id | property | change | needs, to manifest | detected by |\n|---|---|---|---|---|\n"+"\n".join(rows)+"\n"
p=root+'/DESIGN.md'
s=open(p).read()
s=re.sub(r'(<!-- SEEDED-TABLE-BEGIN -->\n).*?(<!-- SEEDED-TABLE-END -->)',lambda m:m.group(1)+tab+m.group(2),s,flags=re.S)
open(p,'w').write(s)
print(len(rows),'rows')
